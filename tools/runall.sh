#!/bin/sh
# dev helper: run every check of a tier and summarise
tier=${1:-quick}
mkdir -p /tmp/runall
for p in C01 C02 C03 C04 C05 C06 C07 C08 C09 C10 C11 C12 C13 C14 C15 C16 C17 C18; do
  s=$(date +%s)
  /verif/check $p $tier > /tmp/runall/$p.$tier.out 2> /tmp/runall/$p.$tier.err
  rc=$?
  e=$(date +%s)
  echo "$p exit=$rc wall=$((e-s))s viol=$(grep -c '^VIOLATION' /tmp/runall/$p.$tier.out) known=$(grep -c '^KNOWN' /tmp/runall/$p.$tier.out) inconcl=$(grep -c '^INCONCLUSIVE' /tmp/runall/$p.$tier.out)"
done
