#!/bin/sh
# dev helper: run every check of a tier and summarise (uses the check script next to this directory)
tier=${1:-quick}
here=$(cd "$(dirname "$0")/.." && pwd)
out=${RUNALL_OUT:-/tmp/runall}
mkdir -p $out
for p in ${RUNALL_PROPS:-C01 C02 C03 C04 C05 C06 C07 C08 C09 C10 C11 C12 C13 C14 C15 C16 C17 C18}; do
  s=$(date +%s)
  $here/check $p $tier > $out/$p.$tier.out 2> $out/$p.$tier.err
  rc=$?
  e=$(date +%s)
  echo "$p exit=$rc wall=$((e-s))s viol=$(grep -c '^VIOLATION' $out/$p.$tier.out) known=$(grep -c '^KNOWN' $out/$p.$tier.out) inconcl=$(grep -c '^INCONCLUSIVE' $out/$p.$tier.out) $(grep '^INCONCLUSIVE\|^VIOLATION' $out/$p.$tier.out | head -2 | cut -c1-300)"
done
