#!/bin/sh
# dev helper: tools/seed_run.sh <seed-id> <symgo args...>   e.g. tools/seed_run.sh C02A run -h cmd/hranoprovod-cli:Harness_app_pipeline -D command=0
# applies /verif/seeded/<id>/patch.diff to a scratch worktree and runs symgo against it
id=$1; shift
WT=$(mktemp -d /tmp/seedrunwt.XXXXXX); rmdir $WT
git -C /repo worktree add -q --detach $WT HEAD || exit 9
(cd $WT && git apply /verif/seeded/$id/patch.diff) || { echo "patch does not apply"; git -C /repo worktree remove --force $WT; exit 8; }
VERIF_REPO=$WT VERIF_OUT=/tmp/seedrun/$id /verif/bin/symgo "$@"
rc=$?
git -C /repo worktree remove --force $WT
exit $rc
