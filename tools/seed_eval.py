#!/usr/bin/env python3
"""dev helper: tools/seed_eval.py <Cxx> <L> [--checks C01,C05] [--tier quick] [--src /tmp/seedout]
1. confirms a seeded change independently in a scratch worktree of /repo (builds, existing
   tests pass with it, the demonstration passes without it and fails with it);
2. stores it as /verif/seeded/<Cxx><L>/ (patch.diff, demo, notes.md, meta.json);
3. runs the named checks (default: the property's own) against the changed tree
   (VERIF_REPO=<worktree>) and records the verdicts in meta.json.
With --recheck the stored copy under /verif/seeded is used as the source."""
import argparse, json, os, re, shutil, subprocess, sys, time, glob

ap = argparse.ArgumentParser()
ap.add_argument("prop"); ap.add_argument("letter")
ap.add_argument("--checks", default="")
ap.add_argument("--tier", default="quick")
ap.add_argument("--src", default="/tmp/seedout")
ap.add_argument("--recheck", action="store_true")
ap.add_argument("--noconfirm", action="store_true")
a = ap.parse_args()
sid = a.prop + a.letter
dst = f"/verif/seeded/{sid}"
env = dict(os.environ, GOFLAGS="", GOPROXY="off", GOSUMDB="off", GOTOOLCHAIN="local")

def sh(cmd, cwd=None, timeout=3600, e=env):
    p = subprocess.run(cmd, shell=True, cwd=cwd, env=e, stdout=subprocess.PIPE, stderr=subprocess.STDOUT, text=True, errors="replace", timeout=timeout)
    return p.returncode, p.stdout

if a.recheck:
    patch = f"{dst}/patch.diff"
    demo = [f for f in glob.glob(f"{dst}/*_test.go")][0]
    notes = f"{dst}/notes.md"
else:
    patch = f"{a.src}/{a.prop}/{a.letter}.patch"
    demo = f"{a.src}/{a.prop}/zz_seed_demo_{a.letter}_test.go"
    notes = f"{a.src}/{a.prop}/{a.letter}.md"
for f in (patch, demo):
    if not os.path.exists(f):
        print("missing", f); sys.exit(9)

wt = f"/tmp/evalwt-{sid}"
sh(f"git -C /repo worktree remove --force {wt}")
shutil.rmtree(wt, ignore_errors=True)
rc, out = sh(f"git -C /repo worktree add -q --detach {wt} HEAD")
if rc != 0:
    print(out); sys.exit(9)
try:
    src = open(demo).read()
    pkg = re.search(r"^package (\w+)", src, re.M).group(1)
    base = pkg[:-5] if pkg.endswith("_test") else pkg
    # directory: named in the notes, else by package name
    ddir = None
    if os.path.exists(notes):
        txt = open(notes).read()
        cands = re.findall(r"(cmd/hranoprovod-cli(?:/internal/\w+)?|parser|resolver|filter)/?", txt)
    if base == "main":
        ddir = "cmd/hranoprovod-cli"
    else:
        hits = set()
        for root, _, files in os.walk(wt):
            if ".git" in root: continue
            for f in files:
                if f.endswith(".go") and not f.endswith("_test.go"):
                    try:
                        if re.search(rf"^package {base}\s*$", open(os.path.join(root, f)).read(), re.M):
                            hits.add(os.path.relpath(root, wt))
                    except Exception: pass
        hits = sorted(hits)
        if len(hits) == 1: ddir = hits[0]
        elif hits:
            # disambiguate with the notes
            for h in hits:
                if os.path.exists(notes) and (h + "/") in open(notes).read() or os.path.exists(notes) and ("`" + h + "`") in open(notes).read():
                    ddir = h; break
            if ddir is None: ddir = hits[0]
    if ddir is None:
        print("cannot place demo, package", pkg); sys.exit(9)
    mod = wt + "/cmd/hranoprovod-cli" if ddir.startswith("cmd/hranoprovod-cli") else wt
    rel = os.path.relpath(os.path.join(wt, ddir), mod)
    relp = "." if rel == "." else "./" + rel
    def run_demo():
        shutil.copy(demo, os.path.join(wt, ddir, os.path.basename(demo)))
        r = sh(f"go test -count=1 -run TestSeedDemo {relp}", cwd=mod, timeout=900)
        os.remove(os.path.join(wt, ddir, os.path.basename(demo)))
        return r
    def run_suite():
        r1 = sh("go build ./... && go test -count=1 ./...", cwd=wt, timeout=900)
        r2 = sh("go build ./... && go test -count=1 ./...", cwd=wt + "/cmd/hranoprovod-cli", timeout=900)
        return (r1[0] or r2[0]), r1[1] + r2[1]
    meta = {"id": sid, "property": a.prop, "demo_dir": ddir, "demo_file": os.path.basename(demo)}
    if not a.noconfirm:
        c0, o0 = run_demo()
    rc, out = sh(f"git apply {patch}", cwd=wt)
    if rc != 0:
        print("PATCH DOES NOT APPLY", out); sys.exit(8)
    if not a.noconfirm:
        t1, ot = run_suite()
        c1, o1 = run_demo()
        sh("git checkout -- go.work.sum", cwd=wt)
        ok = (c0 == 0 and t1 == 0 and c1 != 0)
        meta["confirmed"] = {"demo_passes_on_unchanged": c0 == 0, "existing_tests_pass_with_change": t1 == 0, "demo_fails_with_change": c1 != 0,
                             "ran": ["go test -count=1 -run TestSeedDemo " + relp + " (in " + os.path.relpath(mod, wt) + ") on the unchanged worktree", "git apply patch.diff; go build ./... && go test -count=1 ./... in both modules", "the demonstration again"]}
        fail_line = ""
        for l in o1.splitlines():
            if "_test.go:" in l: fail_line = l.strip(); break
        meta["demo_failure"] = fail_line[:400]
        print(f"confirm {sid}: demo-clean={'pass' if c0==0 else 'FAIL'} suite-with-change={'pass' if t1==0 else 'FAIL'} demo-with-change={'fail' if c1!=0 else 'PASS(!)'}")
        if not ok:
            print(o0[-1500:] if c0 else "", ot[-1500:] if t1 else "", o1[-800:] if c1 == 0 else "")
            print("NOT CONFIRMED"); sys.exit(7)
        if not a.recheck:
            os.makedirs(dst, exist_ok=True)
            shutil.copy(patch, f"{dst}/patch.diff")
            shutil.copy(demo, f"{dst}/{os.path.basename(demo)}")
            if os.path.exists(notes): shutil.copy(notes, f"{dst}/notes.md")
    mpath = f"{dst}/meta.json"
    old = json.load(open(mpath)) if os.path.exists(mpath) else {}
    old.update(meta)
    meta = old
    checks = [c for c in (a.checks.split(",") if a.checks else [a.prop]) if c and c != "none"]
    res = meta.setdefault("checks", {})
    for c in checks:
        outdir = f"/tmp/seedrun/{sid}"
        os.makedirs(outdir, exist_ok=True)
        t0 = time.time()
        e2 = dict(os.environ, VERIF_REPO=wt, VERIF_OUT=outdir)
        rc, out = sh(f"/verif/check {c} {a.tier}", e=e2, timeout=7200)
        open(f"{outdir}/{c}.out", "w").write(out)
        viol = [l for l in out.splitlines() if l.startswith("VIOLATION")]
        inc = [l for l in out.splitlines() if l.startswith("INCONCLUSIVE")]
        verdict = "caught" if rc == 1 and viol else ("inconclusive" if rc == 2 else ("missed" if rc == 0 else f"exit{rc}"))
        res[c] = {"tier": a.tier, "exit": rc, "verdict": verdict, "wall_s": round(time.time() - t0), "first": (viol or inc or [""])[0][:300]}
        print(f"  check {c} {a.tier}: exit={rc} {verdict} {res[c]['wall_s']}s {res[c]['first'][:200]}")
    json.dump(meta, open(mpath, "w"), indent=1)
finally:
    sh(f"git -C /repo worktree remove --force {wt}")
    shutil.rmtree(wt, ignore_errors=True)
