#!/usr/bin/env python3
import json, glob, os
rows=[]
for d in sorted(glob.glob('/verif/seeded/*/')):
    m=json.load(open(d+'meta.json'))
    ch=m.get('checks',{})
    own=ch.get(m['property'],{})
    others=[f"{k}:{v['verdict']}" for k,v in ch.items() if k!=m['property']]
    print(f"{m['id']:5} own={own.get('verdict','-'):13} {own.get('wall_s','')!s:>5}s  {' '.join(others)}  {own.get('first','')[:110] if own.get('verdict')!='caught' else ''}")
