#!/bin/bash
# dev helper: tools/seed_eval.sh <id> <A|B> [extra check ids...]
# 1. confirms the seeded change independently (build, existing tests pass, demo fails with / passes without)
# 2. runs the property's quick check (and extra ones) against the changed tree (scratch worktree via VERIF_REPO)
id=$1; L=$2; shift 2; extra="$@"
SRC=/tmp/seed/$id-out
WT=/tmp/evalwt-$id$L
OUT=/tmp/seedout/$id$L
rm -rf $OUT; mkdir -p $OUT
git -C /repo worktree remove --force $WT 2>/dev/null
git -C /repo worktree add -q --detach $WT HEAD || exit 9
export GOFLAGS= GOPROXY=off GOSUMDB=off
demo=$(ls $SRC/zz_seed_demo_${L}*_test.go 2>/dev/null | head -1)
[ -z "$demo" ] && demo=$(ls $SRC/*demo*${L}*.go 2>/dev/null | head -1)
pkg=$(grep -m1 '^package ' "$demo" | awk '{print $2}')
# find the package directory
ddir=$(grep -l -r --include='*.go' "^package $pkg\$" $WT | grep -v _test.go | xargs -n1 dirname | sort -u | head -1)
[ "$pkg" = "main" ] && ddir=$WT/cmd/hranoprovod-cli
hint=$(grep -o 'cmd/hranoprovod-cli/internal/[a-z]*\|parser/\|resolver/\|filter/' $SRC/$L.md | head -1)
echo "demo=$demo pkg=$pkg dir=$ddir"
run_tests() { (cd $WT && go build ./... && go test -count=1 ./... >/dev/null 2>&1 && cd cmd/hranoprovod-cli && go build ./... && go test -count=1 ./... > /dev/null 2>&1); }
run_demo() { cp "$demo" $ddir/; mod=$WT; case $ddir in *cmd/hranoprovod-cli*) mod=$WT/cmd/hranoprovod-cli;; esac; (cd $mod && go test -count=1 -run 'SeedDemo|Seed' ./${ddir#$mod/} > $OUT/demo.$1.txt 2>&1); rc=$?; rm -f $ddir/$(basename "$demo"); return $rc; }
run_demo clean; c0=$?
(cd $WT && git apply $SRC/$L.patch) || { echo "PATCH DOES NOT APPLY"; exit 8; }
run_tests; t1=$?
run_demo patched; c1=$?
echo "confirm: demo-on-clean rc=$c0 (want 0); tests-with-patch rc=$t1 (want 0); demo-with-patch rc=$c1 (want !=0)"
for p in $id $extra; do
  VERIF_REPO=$WT VERIF_OUT=$OUT /verif/check $p quick > $OUT/check.$p.out 2> $OUT/check.$p.err; rc=$?
  echo "check $p exit=$rc $(grep -c '^VIOLATION' $OUT/check.$p.out) violation line(s), $(grep -c '^INCONCLUSIVE' $OUT/check.$p.out) inconclusive"
  grep -h '^VIOLATION\|^INCONCLUSIVE' $OUT/check.$p.out | cut -c1-260 | head -4
done
git -C /repo worktree remove --force $WT
