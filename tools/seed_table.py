#!/usr/bin/env python3
"""Fills meta.json 'what'/'needs' from the author's notes and prints the DESIGN.md §11 table."""
import json, glob, re, os, sys
rows=[]
history=json.load(open('/verif/seeded/HISTORY.json')) if os.path.exists('/verif/seeded/HISTORY.json') else {}
for d in sorted(glob.glob('/verif/seeded/*/')):
    mp=d+'meta.json'; m=json.load(open(mp))
    notes=open(d+'notes.md').read() if os.path.exists(d+'notes.md') else ''
    patch=open(d+'patch.diff').read()
    files=[f.replace('cmd/hranoprovod-cli/internal/','…/') for f in re.findall(r'^\+\+\+ b/(.*)$',patch,re.M)]
    funcs=sorted(set(re.findall(r'^@@.*@@ func (?:\([^)]*\) )?(\w+)',patch,re.M)))
    m['site']=', '.join(files)+(' ('+', '.join(funcs)+')' if funcs else '')
    # needs: the sentence(s) of the notes that state the trigger
    need=''
    for pat in [r'(?im)^[\s*\-]*\**\s*(?:needed to manifest|what it needs|needs|needed|trigger|condition needed|condition|specific condition|manifests? (?:only )?when)[^:\n]*:\**\s*(.+?)(?:\n\s*\n|\n[\s*\-]*\**[A-Z][^\n]{0,40}:|\Z)', r'(?is)(it (?:only )?(?:needs|shows|manifests)[^.]*\.)']:
        mm=re.search(pat,notes,re.S)
        if mm:
            need=' '.join(mm.group(1).split()); break
    if not need:
        need=' '.join(notes.split())[:240]
    m['needs']=need[:420]
    title=notes.strip().splitlines()[0].lstrip('# ').strip() if notes.strip() else ''
    m['what']=title[:200]
    if m['id'] in history: m['history']=history[m['id']]
    json.dump(m,open(mp,'w'),indent=1)
    own=m.get('checks',{}).get(m['property'],{})
    first=own.get('first','')
    mm=re.search(r'assert=(\S+) harness=(\S+)',first)
    by=(mm.group(2).split(':')[-1]+' / '+mm.group(1)) if mm else ''
    rows.append((m['id'],m['site'],m['needs'],own.get('verdict','-'),by,m.get('history','')))
if '--table' in sys.argv:
    print('| seed | site | needs | own check | caught by (harness / assertion) | note |')
    print('|---|---|---|---|---|---|')
    for r in rows:
        print('| '+' | '.join(x.replace('|','\\|') for x in (r[0], r[1], r[2][:200], r[3], r[4], r[5]))+' |')
