#!/bin/sh
# dev helper: tools/mut.sh <prop> <tier> <file> <python-re-sub-from> <to>   (runs the check on a mutated scratch copy)
set -e
prop=$1; tier=$2; file=$3; from=$4; to=$5
D=$(mktemp -d /tmp/mrepo.XXXXXX)
cp -r /repo/. $D/
rm -rf $D/.git
python3 - "$D/$file" "$from" "$to" <<'PY'
import sys,re
p,f,t=sys.argv[1:4]
s=open(p).read()
n=s.count(f)
if n==0: print("MUTATION PATTERN NOT FOUND"); sys.exit(3)
s=s.replace(f,t,1)
open(p,'w').write(s)
PY
(cd $D && GOFLAGS= GOPROXY=off GOSUMDB=off go build ./... && cd cmd/hranoprovod-cli && GOFLAGS= GOPROXY=off GOSUMDB=off go build ./...) || { echo "MUTANT DOES NOT COMPILE"; rm -rf $D; exit 3; }
VERIF_REPO=$D /verif/check $prop $tier ${6:-} || true
rm -rf $D
