#!/usr/bin/env python3
"""Collects confirmed seeded changes from /tmp/seed/<id>-out into /verif/seeded/<id>-<A|B>/ (patch.diff, demo, meta.json).
Usage: seed_collect.py <evallog>   (parses the output of tools/seed_eval.sh runs)"""
import sys, os, re, json, shutil, glob
log = open(sys.argv[1]).read()
blocks = re.split(r'^=== ', log, flags=re.M)[1:]
props = {json.loads(l)['id']: json.loads(l) for l in open('/verif/properties.jsonl')}
for b in blocks:
    head = b.split('\n', 1)[0].split()
    pid, L = head[0], head[1]
    src = '/tmp/seed/%s-out' % pid
    m = re.search(r'confirm: demo-on-clean rc=(\d+) \(want 0\); tests-with-patch rc=(\d+) \(want 0\); demo-with-patch rc=(\d+)', b)
    if not m:
        print(pid, L, 'no confirmation line'); continue
    c0, t1, c1 = map(int, m.groups())
    confirmed = (c0 == 0 and t1 == 0 and c1 != 0)
    checks = {}
    for cm in re.finditer(r'^check (C\d+) exit=(\d+) (\d+) violation line\(s\), (\d+) inconclusive', b, flags=re.M):
        checks[cm.group(1)] = {'exit': int(cm.group(2)), 'violation_lines': int(cm.group(3)), 'inconclusive_lines': int(cm.group(4))}
    viol = re.findall(r'^VIOLATION property=(C\d+) replay=\S+ assert=(\S+) harness=(\S+)', b, flags=re.M)
    out = '/verif/seeded/%s-%s' % (pid, L)
    if not confirmed:
        print(pid, L, 'NOT CONFIRMED', c0, t1, c1); continue
    os.makedirs(out, exist_ok=True)
    shutil.copy(os.path.join(src, L + '.patch'), os.path.join(out, 'patch.diff'))
    for d in glob.glob(os.path.join(src, '*demo*%s*' % L)) + glob.glob(os.path.join(src, '*demo_%s*' % L)):
        shutil.copy(d, out)
    md = os.path.join(src, L + '.md')
    if os.path.exists(md):
        shutil.copy(md, os.path.join(out, 'author_notes.md'))
    prev = {}
    mp = os.path.join(out, 'meta.json')
    if os.path.exists(mp):
        prev = json.load(open(mp))
    hist = prev.get('check_history', [])
    hist.append({'checks': checks, 'violations': [{'property': v[0], 'assert': v[1], 'harness': v[2]} for v in viol]})
    caught = any(c['exit'] == 1 for c in checks.values())
    meta = {
        'seed': '%s-%s' % (pid, L),
        'breaks_property': pid,
        'property_title': props[pid]['title'],
        'author': 'independent sub-agent given only the property text and a scratch worktree of /repo (nothing from /verif)',
        'needs_to_manifest': prev.get('needs_to_manifest', 'see author_notes.md'),
        'confirmed_by_me': 'tools/seed_eval.sh %s %s: fresh worktree of /repo HEAD; demo passes on the clean tree (rc=%d); patch applied: both modules build and all existing tests pass (rc=%d); demo fails with the patch (rc=%d)' % (pid, L, c0, t1, c1),
        'checks_run': 'VERIF_REPO=<worktree with patch> ./check <id> quick for ' + ', '.join(sorted(checks)),
        'caught': caught,
        'check_history': hist,
    }
    json.dump(meta, open(mp, 'w'), indent=1)
    print(pid, L, 'confirmed; caught' if caught else 'confirmed; MISSED', checks)
