package main

// Symbolic executor for go/ssa. Structure follows x/tools/go/ssa/interp; scalars are SMT
// terms, branches on symbolic conditions are solver-pruned forks recorded in a decision
// vector; a path is re-executed from the start following a prefix of decisions.

import (
	"fmt"
	"go/token"
	"go/types"
	"os"
	"runtime"
	"slices"
	"strings"
	"sync"
	"unicode/utf8"

	"golang.org/x/tools/go/ssa"
)

type continuation int

const (
	kNext continuation = iota
	kReturn
	kJump
)

type deferred struct {
	fn    value
	args  []value
	instr *ssa.Defer
	tail  *deferred
}

type frame struct {
	in               *Interp
	caller           *frame
	fn               *ssa.Function
	block, prevBlock *ssa.BasicBlock
	env              *envT
	locals           []value
	defers           *deferred
	result           value
	panicking        bool
	panic            interface{}
	phitemps         []value
	tolerant         bool // package init frame: unsupported calls yield opaque values
	curPos           token.Pos
}

func (fr *frame) get(key ssa.Value) value {
	switch key := key.(type) {
	case nil:
		return nil
	case *ssa.Function, *ssa.Builtin:
		return key
	case *ssa.Const:
		return fr.in.constValue(key)
	case *ssa.Global:
		return fr.in.globalAddr(key)
	}
	if i, ok := fr.env.info.index[key]; ok {
		return fr.env.vals[i]
	}
	panic(fmt.Sprintf("get: no value for %T: %v", key, key.Name()))
}

// envT holds the dynamic values of a frame's SSA variables, indexed by a per-function
// numbering computed once.
type envT struct {
	info *fnInfo
	vals []value
}

type fnInfo struct {
	index map[ssa.Value]int32
}

var fnInfos sync.Map // *ssa.Function -> *fnInfo

func infoOf(fn *ssa.Function) *fnInfo {
	if v, ok := fnInfos.Load(fn); ok {
		return v.(*fnInfo)
	}
	fi := &fnInfo{index: map[ssa.Value]int32{}}
	add := func(v ssa.Value) {
		if _, ok := fi.index[v]; !ok {
			fi.index[v] = int32(len(fi.index))
		}
	}
	for _, p := range fn.Params {
		add(p)
	}
	for _, fv := range fn.FreeVars {
		add(fv)
	}
	for _, l := range fn.Locals {
		add(l)
	}
	for _, b := range fn.Blocks {
		for _, ins := range b.Instrs {
			if v, ok := ins.(ssa.Value); ok {
				add(v)
			}
		}
	}
	v, _ := fnInfos.LoadOrStore(fn, fi)
	return v.(*fnInfo)
}

func (e *envT) set(k ssa.Value, v value) { e.vals[e.info.index[k]] = v }
func (e *envT) at(k ssa.Value) value     { return e.vals[e.info.index[k]] }

func (fr *frame) runDefer(d *deferred) {
	var ok bool
	defer func() {
		if !ok {
			r := recover()
			if isControl(r) {
				panic(r)
			}
			fr.panicking = true
			fr.panic = r
		}
	}()
	fr.in.call(fr, d.instr.Pos(), d.fn, d.args)
	ok = true
}

type pendingGoroutine struct {
	fn   value
	args []value
}

// runPendingGoroutines runs the goroutines whose start was deferred (WaitGroup.Wait).
func (in *Interp) runPendingGoroutines(fr *frame) {
	for len(in.path.pendingGo) > 0 {
		g := in.path.pendingGo[0]
		in.path.pendingGo = in.path.pendingGo[1:]
		in.inGoroutine++
		in.call(fr, 0, g.fn, g.args)
		in.inGoroutine--
	}
}

// isControl reports panics that must unwind the whole path without running target defers.
func isControl(r interface{}) bool {
	switch r.(type) {
	case unsupported, pathEnd, budgetExceeded, exitPanic:
		return true
	case runtime.Error:
		return true // executor bug; surfaces as engine error
	}
	return false
}

type budgetExceeded struct{ what string }

var debugTrace = os.Getenv("VERIF_TRACE") != ""

// stepProf (VERIF_STEPPROF=1, single worker only): executed instructions per function.
var stepProf = func() map[string]int {
	if os.Getenv("VERIF_STEPPROF") != "" {
		return map[string]int{}
	}
	return nil
}()

func (fr *frame) runDefers() {
	for d := fr.defers; d != nil; d = d.tail {
		fr.runDefer(d)
	}
	fr.defers = nil
	if fr.panicking {
		panic(fr.panic)
	}
}

func (in *Interp) step() {
	in.path.steps++
	if in.path.steps > in.cfg.MaxSteps {
		panic(budgetExceeded{"steps"})
	}
}

func (in *Interp) toInt(v value, what string) int {
	t, ok := v.(*Term)
	if !ok {
		in.checkOpaque(v)
		panic(fmt.Sprintf("toInt(%s): %T", what, v))
	}
	if t.IsConst() {
		return int(t.SVal())
	}
	return int(in.concretize(t, what))
}

func visitInstr(fr *frame, instr ssa.Instruction) continuation {
	in := fr.in
	in.step()
	if stepProf != nil {
		stepProf[fr.fn.String()]++
	}
	switch instr := instr.(type) {
	case *ssa.DebugRef:
	case *ssa.UnOp:
		fr.env.set(instr, in.unop(instr, fr.get(instr.X)))
	case *ssa.BinOp:
		fr.env.set(instr, in.binop(instr.Op, instr.X.Type(), instr.Y.Type(), fr.get(instr.X), fr.get(instr.Y)))
	case *ssa.Call:
		fn, args := prepareCall(fr, &instr.Call)
		if fr.tolerant {
			fr.env.set(instr, in.tolerantCall(fr, instr, fn, args))
		} else {
			fr.env.set(instr, in.call(fr, instr.Pos(), fn, args))
		}
	case *ssa.ChangeInterface:
		fr.env.set(instr, fr.get(instr.X))
	case *ssa.ChangeType:
		fr.env.set(instr, fr.get(instr.X))
	case *ssa.Convert:
		fr.env.set(instr, in.conv(instr.Type(), instr.X.Type(), fr.get(instr.X)))
	case *ssa.SliceToArrayPointer:
		x := fr.get(instr.X).([]value)
		n := instr.Type().Underlying().(*types.Pointer).Elem().Underlying().(*types.Array).Len()
		if int64(len(x)) < n {
			panic(targetPanic{msg: "runtime error: cannot convert slice to array pointer: length too short"})
		}
		if x == nil {
			fr.env.set(instr, (*value)(nil))
		} else {
			v := value(array(x[:n:n]))
			fr.env.set(instr, &v)
		}
	case *ssa.MakeInterface:
		fr.env.set(instr, iface{t: instr.X.Type(), v: fr.get(instr.X)})
	case *ssa.Extract:
		tv := fr.get(instr.Tuple)
		if o, ok := tv.(opaqueV); ok {
			fr.env.set(instr, o)
		} else {
			fr.env.set(instr, tv.(tuple)[instr.Index])
		}
	case *ssa.Slice:
		fr.env.set(instr, in.slice(instr, fr.get(instr.X), fr.get(instr.Low), fr.get(instr.High), fr.get(instr.Max)))
	case *ssa.Return:
		switch len(instr.Results) {
		case 0:
		case 1:
			fr.result = fr.get(instr.Results[0])
		default:
			var res []value
			for _, r := range instr.Results {
				res = append(res, fr.get(r))
			}
			fr.result = tuple(res)
		}
		fr.block = nil
		return kReturn
	case *ssa.RunDefers:
		fr.runDefers()
	case *ssa.Panic:
		panic(targetPanic{v: fr.get(instr.X)})
	case *ssa.Send:
		if in.inGoroutine > 0 {
			panic(unsupported{"channel send inside a goroutine started by the code under test"})
		}
		ch := fr.get(instr.Chan).(*Chan)
		if ch == nil {
			panic(unsupported{"send on nil channel (blocks forever)"})
		}
		in.path.events = append(in.path.events, Event{Chan: ch.id, Val: fr.get(instr.X)})
		if hook := in.path.onSend; hook != nil && !in.path.inSendHook {
			// the consumer's reaction to what it receives, run while the producer is at the send:
			// one legal schedule (the consumer is quick, the producer slow)
			in.path.inSendHook = true
			in.call(fr, instr.Pos(), hook, nil)
			in.path.inSendHook = false
		}
	case *ssa.Store:
		addr, ok := in.realPtr(fr.get(instr.Addr)).(*value)
		if !ok {
			in.checkOpaque(fr.get(instr.Addr))
		}
		if addr == nil {
			panic(targetPanic{msg: "runtime error: invalid memory address or nil pointer dereference"})
		}
		store(mustDeref(instr.Addr.Type()), addr, fr.get(instr.Val))
	case *ssa.If:
		c := fr.get(instr.Cond)
		ct, ok := c.(*Term)
		if !ok {
			in.checkOpaque(c)
		}
		succ := 1
		if in.branch(ct) {
			succ = 0
		}
		fr.prevBlock, fr.block = fr.block, fr.block.Succs[succ]
		return kJump
	case *ssa.Jump:
		fr.prevBlock, fr.block = fr.block, fr.block.Succs[0]
		return kJump
	case *ssa.Defer:
		fn, args := prepareCall(fr, &instr.Call)
		defers := &fr.defers
		if instr.DeferStack != nil {
			if into := fr.get(instr.DeferStack); into != nil {
				defers = into.(**deferred)
			}
		}
		*defers = &deferred{fn: fn, args: args, instr: instr, tail: *defers}
	case *ssa.Go:
		// One legal schedule of a goroutine that never blocks: it runs to completion at once.
		// (A goroutine that would block - a send without a receiver, a receive - is unsupported
		// below.) Other schedules are outside the claim; natively the replay is repeated.
		fn, args := prepareCall(fr, &instr.Call)
		in.path.goN++
		if in.choose(2, "go") == 0 {
			in.path.labels["schedule"] = "a goroutine ran to completion where it was started"
			in.inGoroutine++
			in.call(fr, instr.Pos(), fn, args)
			in.inGoroutine--
		} else {
			// the other extreme: it runs only when somebody waits for it (WaitGroup.Wait)
			in.path.labels["schedule"] = "a goroutine ran only when it was waited for"
			in.path.pendingGo = append(in.path.pendingGo, pendingGoroutine{fn, args})
		}
	case *ssa.Select:
		// Non-blocking select whose cases are all sends on unbuffered channels: a case is taken
		// iff a receiver happens to be waiting at that moment, which depends on the schedule -
		// every outcome (one of the sends, or default) is explored. Anything else is unsupported.
		if instr.Blocking {
			panic(unsupported{"blocking select statement"})
		}
		for _, st := range instr.States {
			if st.Dir != types.SendOnly {
				panic(unsupported{"select with a receive case"})
			}
		}
		c := in.choose(len(instr.States)+1, "select")
		res := tuple{in.intConst(-1), in.tb.False}
		if c < len(instr.States) {
			st := instr.States[c]
			ch, _ := fr.get(st.Chan).(*Chan)
			if ch == nil {
				panic(unsupported{"select: send on nil channel"})
			}
			in.path.events = append(in.path.events, Event{Chan: ch.id, Val: fr.get(st.Send)})
			res[0] = in.intConst(int64(c))
		}
		fr.env.set(instr, res)
	case *ssa.MakeChan:
		if sz := in.toInt(fr.get(instr.Size), "chan size"); sz != 0 {
			// the schedule reduction used for the channel protocol (one producer, at most one
			// pending send) does not hold for buffered channels
			panic(unsupported{"buffered channel: the single-pending-send reduction does not apply"})
		}
		in.path.nchan++
		fr.env.set(instr, &Chan{id: in.path.nchan, cap: in.toInt(fr.get(instr.Size), "chan size")})
	case *ssa.Alloc:
		var addr *value
		if instr.Heap {
			addr = new(value)
			fr.env.set(instr, addr)
		} else {
			addr = fr.env.at(instr).(*value)
		}
		*addr = in.zero(mustDeref(instr.Type()))
	case *ssa.MakeSlice:
		n := in.toInt(fr.get(instr.Len), "make len")
		c := in.toInt(fr.get(instr.Cap), "make cap")
		if n < 0 || c < n {
			panic(targetPanic{msg: "runtime error: makeslice: len out of range"})
		}
		if c > 1<<24 {
			panic(unsupported{"makeslice larger than 16M elements"})
		}
		s := make([]value, c)
		z := in.zero(instr.Type().Underlying().(*types.Slice).Elem())
		if isImmutableValue(z) {
			for i := range s {
				s[i] = z
			}
		} else {
			tElt := instr.Type().Underlying().(*types.Slice).Elem()
			for i := range s {
				s[i] = in.zero(tElt)
			}
		}
		fr.env.set(instr, s[:n])
	case *ssa.MakeMap:
		fr.env.set(instr, &Map{keyT: instr.Type().Underlying().(*types.Map).Key()})
	case *ssa.Range:
		in.rangeFixed = in.cfg.MapOrderRepoOnly && !(fr.fn.Pkg != nil && strings.HasPrefix(fr.fn.Pkg.Pkg.Path(), "github.com/aquilax/hranoprovod-cli"))
		fr.env.set(instr, in.rangeIter(fr.get(instr.X), instr.X.Type()))
	case *ssa.Next:
		fr.env.set(instr, fr.get(instr.Iter).(iter).next(in))
	case *ssa.FieldAddr:
		p, ok := in.realPtr(fr.get(instr.X)).(*value)
		if !ok {
			in.checkOpaque(fr.get(instr.X))
		}
		if p == nil {
			panic(targetPanic{msg: "runtime error: invalid memory address or nil pointer dereference"})
		}
		s, ok := (*p).(structure)
		if !ok {
			in.checkOpaque(*p)
			panic(unsupported{fmt.Sprintf("field access through a pointer to %T (unsafe reinterpretation?)", *p)})
		}
		fr.env.set(instr, &s[instr.Field])
	case *ssa.Field:
		x := fr.get(instr.X)
		if o, ok := x.(opaqueV); ok {
			fr.env.set(instr, o)
		} else {
			fr.env.set(instr, x.(structure)[instr.Field])
		}
	case *ssa.IndexAddr:
		x := fr.get(instr.X)
		var elems []value
		switch x := x.(type) {
		case []value:
			elems = x
		case *value:
			if x == nil {
				panic(targetPanic{msg: "runtime error: invalid memory address or nil pointer dereference"})
			}
			elems = (*x).(array)
		default:
			in.checkOpaque(x)
			panic(fmt.Sprintf("unexpected x type in IndexAddr: %T", x))
		}
		iv := fr.get(instr.Index)
		if it, ok := iv.(*Term); ok && !it.IsConst() && constTable(elems) {
			signed := isSigned(instr.Index.Type())
			t64 := in.tb.BVConv(it, SBV64, signed)
			if !in.branch(in.tb.BVULt(t64, in.tb.BV(SBV64, uint64(len(elems))))) {
				panic(targetPanic{msg: fmt.Sprintf("runtime error: index out of range [symbolic] with length %d", len(elems))})
			}
			fr.env.set(instr, &symElemPtr{elems: elems, idx: t64})
			break
		}
		i := in.indexOf(iv, len(elems), isSigned(instr.Index.Type()))
		fr.env.set(instr, &elems[i])
	case *ssa.Index:
		x := fr.get(instr.X)
		switch x := x.(type) {
		case array:
			fr.env.set(instr, in.indexRead(x, fr.get(instr.Index), isSigned(instr.Index.Type())))
		case string, *Rope:
			n := strConcreteLen(x)
			i := in.indexOf(fr.get(instr.Index), n, isSigned(instr.Index.Type()))
			fr.env.set(instr, in.strIndex(x, i))
		default:
			in.checkOpaque(x)
			panic(fmt.Sprintf("unexpected x type in Index: %T", x))
		}
	case *ssa.Lookup:
		fr.env.set(instr, in.lookup(instr, fr.get(instr.X), fr.get(instr.Index)))
	case *ssa.MapUpdate:
		m, ok := fr.get(instr.Map).(*Map)
		if !ok {
			in.checkOpaque(fr.get(instr.Map))
		}
		if m == nil {
			panic(targetPanic{msg: "assignment to entry in nil map"})
		}
		in.mapInsert(m, fr.get(instr.Key), copyVal(fr.get(instr.Value)))
	case *ssa.TypeAssert:
		x := fr.get(instr.X)
		itf, ok := x.(iface)
		if !ok {
			in.checkOpaque(x)
		}
		fr.env.set(instr, in.typeAssert(instr, itf))
	case *ssa.MakeClosure:
		var bindings []value
		for _, binding := range instr.Bindings {
			bindings = append(bindings, fr.get(binding))
		}
		fr.env.set(instr, &closure{instr.Fn.(*ssa.Function), bindings})
	case *ssa.Phi:
		panic("unreachable: phi")
	default:
		panic(unsupported{fmt.Sprintf("instruction %T", instr)})
	}
	return kNext
}

// indexOf returns a concrete in-range index, forking on symbolic indices; out of range panics.
func (in *Interp) indexOf(iv value, n int, signed bool) int {
	t, ok := iv.(*Term)
	if !ok {
		in.checkOpaque(iv)
		panic(fmt.Sprintf("index is %T", iv))
	}
	if t.IsConst() {
		i := t.SVal()
		if !signed {
			u := t.UVal()
			if u >= uint64(n) {
				panic(targetPanic{msg: fmt.Sprintf("runtime error: index out of range [%d] with length %d", u, n)})
			}
			return int(u)
		}
		if i < 0 || i >= int64(n) {
			panic(targetPanic{msg: fmt.Sprintf("runtime error: index out of range [%d] with length %d", i, n)})
		}
		return int(i)
	}
	t64 := in.tb.BVConv(t, SBV64, signed)
	inRange := in.tb.BVULt(t64, in.tb.BV(SBV64, uint64(n)))
	if !in.branch(inRange) {
		panic(targetPanic{msg: fmt.Sprintf("runtime error: index out of range [symbolic] with length %d", n)})
	}
	return int(in.concretize(t64, "index"))
}

// symElemPtr is a lazy pointer &table[idx] with a symbolic in-range index into a table of
// constants; a load through it becomes an ite chain, any other use concretises the index.
type symElemPtr struct {
	elems []value
	idx   *Term // BV64, known to be < len(elems)
}

func constTable(elems []value) bool {
	if len(elems) == 0 || len(elems) > 1024 {
		return false
	}
	return constShape(elems[0]) && sameShapeAll(elems)
}

func constShape(v value) bool {
	switch v := v.(type) {
	case *Term:
		return v.IsConst()
	case structure:
		for _, f := range v {
			if !constShape(f) {
				return false
			}
		}
		return true
	case array:
		for _, f := range v {
			if !constShape(f) {
				return false
			}
		}
		return len(v) <= 8
	}
	return false
}

func sameShapeAll(elems []value) bool {
	for _, e := range elems[1:] {
		if !constShape(e) || !sameShape(elems[0], e) {
			return false
		}
	}
	return true
}

func sameShape(a, b value) bool {
	switch a := a.(type) {
	case *Term:
		bt, ok := b.(*Term)
		return ok && bt.sort == a.sort
	case structure:
		bs, ok := b.(structure)
		if !ok || len(bs) != len(a) {
			return false
		}
		for i := range a {
			if !sameShape(a[i], bs[i]) {
				return false
			}
		}
		return true
	case array:
		bs, ok := b.(array)
		if !ok || len(bs) != len(a) {
			return false
		}
		for i := range a {
			if !sameShape(a[i], bs[i]) {
				return false
			}
		}
		return true
	}
	return false
}

// iteSelect builds elems[idx] for a table of constants of identical shape.
func (in *Interp) iteSelect(elems []value, idx *Term) value {
	switch e0 := elems[0].(type) {
	case *Term:
		cnt := map[*Term]int{}
		var dflt *Term
		for _, e := range elems {
			et := e.(*Term)
			cnt[et]++
			if dflt == nil || cnt[et] > cnt[dflt] {
				dflt = et
			}
		}
		res := dflt
		for i := len(elems) - 1; i >= 0; i-- {
			et := elems[i].(*Term)
			if et == dflt {
				continue
			}
			res = in.tb.Ite(in.tb.Eq(idx, in.tb.BV(SBV64, uint64(i))), et, res)
		}
		return res
	case structure:
		out := make(structure, len(e0))
		col := make([]value, len(elems))
		for f := range e0 {
			for i, e := range elems {
				col[i] = e.(structure)[f]
			}
			out[f] = in.iteSelect(col, idx)
		}
		return out
	case array:
		out := make(array, len(e0))
		col := make([]value, len(elems))
		for f := range e0 {
			for i, e := range elems {
				col[i] = e.(array)[f]
			}
			out[f] = in.iteSelect(col, idx)
		}
		return out
	}
	panic("iteSelect: bad shape")
}

// realPtr turns a lazy element pointer into a real one by concretising its index.
func (in *Interp) realPtr(v value) value {
	if sp, ok := v.(*symElemPtr); ok {
		i := in.concretize(sp.idx, "index")
		return &sp.elems[i]
	}
	return v
}

// indexRead reads elems[i]; a symbolic index into an all-scalar table becomes an ite chain.
func (in *Interp) indexRead(elems []value, iv value, signed bool) value {
	t := iv.(*Term)
	if t.IsConst() {
		return elems[in.indexOf(iv, len(elems), signed)]
	}
	allScalar := len(elems) > 0 && len(elems) <= 1024
	var s0 Sort
	for i, e := range elems {
		et, ok := e.(*Term)
		if !ok || !et.IsConst() {
			allScalar = false
			break
		}
		if i == 0 {
			s0 = et.sort
		} else if et.sort != s0 {
			allScalar = false
			break
		}
	}
	if !allScalar {
		return elems[in.indexOf(iv, len(elems), signed)]
	}
	t64 := in.tb.BVConv(t, SBV64, signed)
	inRange := in.tb.BVULt(t64, in.tb.BV(SBV64, uint64(len(elems))))
	if !in.branch(inRange) {
		panic(targetPanic{msg: fmt.Sprintf("runtime error: index out of range [symbolic] with length %d", len(elems))})
	}
	// most common value as default
	cnt := map[*Term]int{}
	var dflt *Term
	for _, e := range elems {
		et := e.(*Term)
		cnt[et]++
		if dflt == nil || cnt[et] > cnt[dflt] {
			dflt = et
		}
	}
	res := dflt
	for i := len(elems) - 1; i >= 0; i-- {
		et := elems[i].(*Term)
		if et == dflt {
			continue
		}
		res = in.tb.Ite(in.tb.Eq(t64, in.tb.BV(SBV64, uint64(i))), et, res)
	}
	return res
}

func (in *Interp) slice(instr *ssa.Slice, x, lo, hi, max value) value {
	var Len, Cap int
	if x == nil {
		if _, isSlice := instr.X.Type().Underlying().(*types.Slice); isSlice {
			x = []value(nil) // the nil slice
		}
	}
	switch x := x.(type) {
	case string, *Rope:
		Len = strConcreteLen(x)
		Cap = Len
	case []value:
		Len = len(x)
		Cap = cap(x)
	case *value:
		if x == nil {
			panic(targetPanic{msg: "runtime error: invalid memory address or nil pointer dereference"})
		}
		a := (*x).(array)
		Len = len(a)
		Cap = cap(a)
		if Cap > Len {
			Cap = Len
		}
	default:
		in.checkOpaque(x)
		panic(fmt.Sprintf("slice: unexpected X type: %T", x))
	}
	l, h, m := 0, Len, Cap
	bound := func(v value, what string) int {
		t := v.(*Term)
		if t.IsConst() {
			return int(t.SVal())
		}
		// symbolic bound: in range or panic
		t64 := in.tb.BVConv(t, SBV64, true)
		ok := in.tb.BVULe(t64, in.tb.BV(SBV64, uint64(Cap)))
		if !in.branch(ok) {
			panic(targetPanic{msg: "runtime error: slice bounds out of range [symbolic]"})
		}
		return int(in.concretize(t64, what))
	}
	if lo != nil {
		l = bound(lo, "slice low")
	}
	if hi != nil {
		h = bound(hi, "slice high")
	}
	if max != nil {
		m = bound(max, "slice max")
	}
	_, isStr := x.(string)
	_, isRope := x.(*Rope)
	limit := Cap
	if isStr || isRope {
		limit = Len
	}
	if l < 0 || h < l || h > limit || m < h || m > Cap {
		panic(targetPanic{msg: fmt.Sprintf("runtime error: slice bounds out of range [%d:%d] with capacity %d", l, h, limit)})
	}
	switch x := x.(type) {
	case string, *Rope:
		return in.strSlice(x, l, h)
	case []value:
		if x == nil {
			return x
		}
		return x[l:h:m]
	case *value:
		a := (*x).(array)
		return []value(a)[l:h:m]
	}
	panic("unreachable")
}

func prepareCall(fr *frame, call *ssa.CallCommon) (fn value, args []value) {
	v := fr.get(call.Value)
	if call.Method == nil {
		fn = v
	} else {
		recv, ok := v.(iface)
		if !ok {
			fr.in.checkOpaque(v)
		}
		if recv.t == nil {
			panic(targetPanic{msg: "runtime error: invalid memory address or nil pointer dereference (method call on nil interface)"})
		}
		f := fr.in.prog.LookupMethod(recv.t, call.Method.Pkg(), call.Method.Name())
		if f == nil {
			panic(fmt.Sprintf("method set for dynamic type %v does not contain %s", recv.t, call.Method))
		}
		fn = f
		args = append(args, recv.v)
	}
	for _, arg := range call.Args {
		args = append(args, fr.get(arg))
	}
	return
}

func (in *Interp) call(caller *frame, callpos token.Pos, fn value, args []value) value {
	switch fn := fn.(type) {
	case *ssa.Function:
		if fn == nil {
			panic(targetPanic{msg: "runtime error: invalid memory address or nil pointer dereference (call of nil func)"})
		}
		return in.callSSA(caller, callpos, fn, args, nil)
	case *closure:
		if fn == nil {
			panic(targetPanic{msg: "runtime error: invalid memory address or nil pointer dereference (call of nil func)"})
		}
		return in.callSSA(caller, callpos, fn.Fn, args, fn.Env)
	case *ssa.Builtin:
		return in.callBuiltin(caller, callpos, fn, args)
	case *nativeFunc:
		return fn.fn(in, args)
	case opaqueV:
		panic(unsupported{"call of opaque function value"})
	}
	panic(fmt.Sprintf("cannot call %T", fn))
}

// tolerantCall runs a call made directly by a package initialiser; unsupported constructs
// inside it yield an opaque value instead of aborting the path.
func (in *Interp) tolerantCall(fr *frame, instr *ssa.Call, fn value, args []value) (res value) {
	if f, ok := fn.(*ssa.Function); ok && f != nil && f.Name() == "init" && f.Pkg != fr.fn.Pkg && f.Signature.Recv() == nil {
		return nil // other packages are initialised lazily on first use of their globals
	}
	defer func() {
		if r := recover(); r != nil {
			switch r := r.(type) {
			case unsupported:
				res = opaqueV{r.why}
			case targetPanic:
				res = opaqueV{"panic in init: " + r.msg}
			default:
				panic(r)
			}
		}
	}()
	return in.call(fr, instr.Pos(), fn, args)
}

func (in *Interp) callSSA(caller *frame, callpos token.Pos, fn *ssa.Function, args []value, env []value) value {
	in.path.depth++
	if in.path.depth > in.cfg.MaxDepth {
		panic(budgetExceeded{"call depth"})
	}
	defer func() { in.path.depth-- }()

	if fn.Parent() == nil {
		if in.skipExt == fn {
			in.skipExt = nil // an external deferring to the function's real code for this call
		} else if ext := in.lookupExternal(fn); ext != nil {
			fr := &frame{in: in, caller: caller, fn: fn}
			return ext(in, fr, args)
		}
		if fn.Blocks == nil {
			panic(unsupported{"no code for function: " + fn.String()})
		}
	}
	if fn.TypeParams().Len() > 0 && len(fn.TypeArgs()) == 0 {
		panic(unsupported{"uninstantiated generic function " + fn.String()})
	}
	in.noteFunction(fn)
	fr := &frame{in: in, caller: caller, fn: fn}
	if fn.Name() == "init" && fn.Signature.Recv() == nil && fn.Synthetic != "" {
		fr.tolerant = true
	}
	fi := infoOf(fn)
	fr.env = &envT{info: fi, vals: make([]value, len(fi.index))}
	fr.block = fn.Blocks[0]
	fr.locals = make([]value, len(fn.Locals))
	for i, l := range fn.Locals {
		fr.locals[i] = in.zero(mustDeref(l.Type()))
		fr.env.set(l, &fr.locals[i])
	}
	for i, p := range fn.Params {
		fr.env.set(p, args[i])
	}
	for i, fv := range fn.FreeVars {
		fr.env.set(fv, env[i])
	}
	for fr.block != nil {
		runFrame(fr)
	}
	return fr.result
}

func runFrame(fr *frame) {
	defer func() {
		if fr.block == nil {
			return // normal return
		}
		r := recover()
		if debugTrace && r != nil {
			fmt.Fprintf(os.Stderr, "TRACE unwinding %s [%v]: %v\n", fr.fn.String(), fr.in.prog.Fset.Position(fr.curPos), r)
		}
		if isControl(r) {
			panic(r)
		}
		fr.panicking = true
		fr.panic = r
		fr.runDefers()
		fr.block = fr.fn.Recover
	}()
	for {
		nonPhis := executePhis(fr)
		for _, instr := range nonPhis {
			if debugTrace {
				if p := instr.Pos(); p.IsValid() {
					fr.curPos = p
				}
			}
			if fr.tolerant {
				if visitTolerant(fr, instr) == kReturn {
					return
				}
				continue
			}
			if visitInstr(fr, instr) == kReturn {
				return
			}
		}
	}
}

// visitTolerant executes one instruction of a package initialiser; an unsupported operation
// makes that instruction's value opaque instead of aborting the initialiser.
func visitTolerant(fr *frame, instr ssa.Instruction) (k continuation) {
	defer func() {
		if r := recover(); r != nil {
			u, ok := r.(unsupported)
			if !ok {
				panic(r)
			}
			switch instr.(type) {
			case *ssa.If, *ssa.Jump, *ssa.Return, *ssa.Panic:
				panic(r) // control flow cannot be made opaque
			}
			if v, isVal := instr.(ssa.Value); isVal {
				fr.env.set(v, opaqueV{u.why})
			}
			k = kNext
		}
	}()
	return visitInstr(fr, instr)
}

func executePhis(fr *frame) []ssa.Instruction {
	firstNonPhi := -1
	for i, instr := range fr.block.Instrs {
		if _, ok := instr.(*ssa.Phi); !ok {
			firstNonPhi = i
			break
		}
	}
	nonPhis := fr.block.Instrs[firstNonPhi:]
	if firstNonPhi > 0 {
		phis := fr.block.Instrs[:firstNonPhi]
		predIndex := slices.Index(fr.block.Preds, fr.prevBlock)
		fr.phitemps = fr.phitemps[:0]
		for _, phi := range phis {
			phi := phi.(*ssa.Phi)
			fr.phitemps = append(fr.phitemps, fr.get(phi.Edges[predIndex]))
		}
		for i, phi := range phis {
			fr.env.set(phi.(*ssa.Phi), fr.phitemps[i])
		}
	}
	return nonPhis
}

func doRecover(caller *frame) value {
	if caller != nil && !caller.panicking && caller.caller != nil && caller.caller.panicking {
		caller.caller.panicking = false
		p := caller.caller.panic
		caller.caller.panic = nil
		switch p := p.(type) {
		case targetPanic:
			if p.v != nil {
				return p.v
			}
			return iface{t: types.Typ[types.String], v: p.msg}
		default:
			panic(fmt.Sprintf("unexpected panic type %T in target call to recover(): %v", p, p))
		}
	}
	return iface{}
}

// ---- builtins

func (in *Interp) callBuiltin(caller *frame, callpos token.Pos, fn *ssa.Builtin, args []value) value {
	switch fn.Name() {
	case "append":
		if len(args) == 1 {
			return args[0]
		}
		in.checkOpaque(args[0], args[1])
		arg0 := args[0].([]value)
		switch s := args[1].(type) {
		case string, *Rope:
			r := in.ropeOf(s)
			r.byteLevel("append([]byte, string...)")
			for _, a := range r.atoms {
				arg0 = append(arg0, a.t)
			}
			return arg0
		case []value:
			for _, e := range s {
				arg0 = append(arg0, copyVal(e))
			}
			if arg0 == nil && s != nil {
				arg0 = []value{}
			}
			return arg0
		}
		panic(fmt.Sprintf("append: %T", args[1]))
	case "copy":
		in.checkOpaque(args[0], args[1])
		dst := args[0].([]value)
		switch src := args[1].(type) {
		case string, *Rope:
			r := in.ropeOf(src)
			r.byteLevel("copy([]byte, string)")
			n := len(dst)
			if len(r.atoms) < n {
				n = len(r.atoms)
			}
			for i := 0; i < n; i++ {
				dst[i] = r.atoms[i].t
			}
			return in.intConst(int64(n))
		case []value:
			n := len(dst)
			if len(src) < n {
				n = len(src)
			}
			tmp := make([]value, n)
			for i := 0; i < n; i++ {
				tmp[i] = copyVal(src[i])
			}
			copy(dst, tmp)
			return in.intConst(int64(n))
		}
		panic(fmt.Sprintf("copy: %T", args[1]))
	case "close":
		panic(unsupported{"close(chan)"})
	case "delete":
		m := args[0].(*Map)
		in.mapDelete(m, args[1])
		return nil
	case "clear":
		switch x := args[0].(type) {
		case *Map:
			if x != nil {
				for _, e := range x.entries {
					if e.live {
						e.live = false
						x.n--
					}
				}
				x.sidx = nil
			}
			return nil
		case []value:
			sig := fn.Type().(*types.Signature)
			et := sig.Params().At(0).Type().Underlying().(*types.Slice).Elem()
			for i := range x {
				x[i] = in.zero(et)
			}
			return nil
		case nil:
			return nil
		}
		in.checkOpaque(args[0])
		panic(unsupported{"clear of " + fmt.Sprintf("%T", args[0])})
	case "print", "println":
		return nil
	case "len":
		switch x := args[0].(type) {
		case string, *Rope:
			return in.strLen(x)
		case array:
			return in.intConst(int64(len(x)))
		case *value:
			return in.intConst(int64(len((*x).(array))))
		case []value:
			return in.intConst(int64(len(x)))
		case *Map:
			return in.intConst(int64(x.Len()))
		case *Chan:
			return in.intConst(0)
		}
		in.checkOpaque(args[0])
		panic(fmt.Sprintf("len: illegal operand: %T", args[0]))
	case "cap":
		switch x := args[0].(type) {
		case array:
			return in.intConst(int64(len(x)))
		case *value:
			return in.intConst(int64(len((*x).(array))))
		case []value:
			return in.intConst(int64(cap(x)))
		case *Chan:
			return in.intConst(int64(x.cap))
		}
		panic(fmt.Sprintf("cap: illegal operand: %T", args[0]))
	case "min", "max":
		x := args[0].(*Term)
		sig := fn.Type().(*types.Signature)
		t := sig.Params().At(0).Type()
		for _, a := range args[1:] {
			y := a.(*Term)
			var lt *Term
			if fn.Name() == "min" {
				lt = in.binop(token.LSS, t, t, y, x).(*Term)
			} else {
				lt = in.binop(token.GTR, t, t, y, x).(*Term)
			}
			x = in.tb.Ite(lt, y, x)
		}
		return x
	case "panic":
		panic(targetPanic{v: args[0]})
	case "recover":
		return doRecover(caller)
	case "ssa:wrapnilchk":
		recv := args[0]
		if p, ok := recv.(*value); ok && p == nil {
			panic(targetPanic{msg: fmt.Sprintf("value method %s.%s called using nil pointer", ropeString(args[1]), ropeString(args[2]))})
		}
		return recv
	case "ssa:deferstack":
		return &caller.defers
	case "String": // unsafe.String(ptr *byte, len)
		panic(unsupported{"unsafe.String"})
	case "SliceData", "StringData", "Slice", "Add":
		panic(unsupported{"unsafe." + fn.Name()})
	}
	panic(unsupported{"built-in: " + fn.Name()})
}

// ---- maps

func (in *Interp) keyEq(kt types.Type, a, b value) bool {
	if as, ok := a.(string); ok {
		if bs, ok := b.(string); ok {
			return as == bs
		}
	}
	c := in.equals(kt, a, b)
	return in.branch(c)
}

func (in *Interp) mapFind(m *Map, k value) *mapEntry {
	if m == nil {
		return nil
	}
	if ks, ok := k.(string); ok && m.sidx != nil {
		if i, ok := m.sidx[ks]; ok {
			if e := m.entries[i]; e.live {
				return e
			}
		}
		// there may still be symbolic-keyed entries
		for _, e := range m.entries {
			if !e.live {
				continue
			}
			if _, conc := e.key.(string); conc {
				continue
			}
			if in.keyEq(m.keyT, e.key, k) {
				return e
			}
		}
		return nil
	}
	for _, e := range m.entries {
		if e.live && in.keyEq(m.keyT, e.key, k) {
			return e
		}
	}
	return nil
}

func (in *Interp) mapInsert(m *Map, k, v value) {
	in.checkOpaque(k)
	if e := in.mapFind(m, k); e != nil {
		e.val = v
		return
	}
	m.entries = append(m.entries, &mapEntry{key: k, val: v, live: true})
	m.n++
	if ks, ok := k.(string); ok {
		if m.sidx == nil {
			m.sidx = map[string]int{}
		}
		m.sidx[ks] = len(m.entries) - 1
	}
}

func (in *Interp) mapDelete(m *Map, k value) {
	if e := in.mapFind(m, k); e != nil {
		e.live = false
		m.n--
		if ks, ok := k.(string); ok && m.sidx != nil {
			delete(m.sidx, ks)
		}
	}
}

func (in *Interp) lookup(instr *ssa.Lookup, x, idx value) value {
	m, ok := x.(*Map)
	if !ok {
		in.checkOpaque(x)
		panic(fmt.Sprintf("unexpected x type in Lookup: %T", x))
	}
	in.checkOpaque(idx)
	var v value
	e := in.mapFind(m, idx)
	if e != nil {
		v = copyVal(e.val)
	} else {
		v = in.zero(instr.X.Type().Underlying().(*types.Map).Elem())
	}
	if instr.CommaOk {
		v = tuple{v, in.tb.Bool(e != nil)}
	}
	return v
}

// ---- iterators

type iter interface {
	next(in *Interp) tuple
}

type mapIter struct {
	m       *Map
	pending []*mapEntry
	seen    int
	fixed   bool // this range is not explored (insertion order): code outside the repository in -maporder=repo
	two     bool // large map: only insertion order and its reverse are explored
	rev     bool
	started bool
}

func (it *mapIter) next(in *Interp) tuple {
	if it.m != nil && len(it.m.entries) > it.seen {
		for _, e := range it.m.entries[it.seen:] {
			if e.live {
				panic(unsupported{"map insertion during iteration"})
			}
		}
	}
	live := it.pending[:0]
	for _, e := range it.pending {
		if e.live {
			live = append(live, e)
		}
	}
	it.pending = live
	if len(live) == 0 {
		return tuple{in.tb.False, nil, nil}
	}
	k := 0
	if len(live) > 1 && in.cfg.MapOrderAll && !it.fixed {
		if !it.started && len(live) > mapOrderExhaustiveMax {
			// k! orders are out of reach: explore two of them (insertion order and its reverse);
			// every order is one the runtime may pick, so a difference between these two is a
			// genuine order dependence (the others are outside the claim)
			it.two = true
			it.rev = in.choose(2, "maporder") == 1
		}
		if it.two {
			if it.rev {
				k = len(live) - 1
			}
		} else {
			k = in.choose(len(live), "maporder")
		}
	}
	it.started = true
	e := live[k]
	it.pending = append(append([]*mapEntry{}, live[:k]...), live[k+1:]...)
	return tuple{in.tb.True, e.key, copyVal(e.val)}
}

type stringIter struct {
	s value
	i int
}

func (it *stringIter) next(in *Interp) tuple {
	n := strConcreteLen(it.s)
	if it.i >= n {
		return tuple{in.tb.False, nil, nil}
	}
	if s, ok := it.s.(string); ok {
		r, size := decodeRuneInString(s[it.i:])
		idx := it.i
		it.i += size
		return tuple{in.tb.True, in.intConst(int64(idx)), in.tb.BV(SBV32, uint64(r))}
	}
	// symbolic: ASCII fast path, else the real utf8.DecodeRuneInString on the rest of the string
	b := in.strIndex(it.s, it.i)
	if in.branch(in.tb.BVULt(b, in.tb.BV(SBV8, 0x80))) {
		idx := it.i
		it.i++
		return tuple{in.tb.True, in.intConst(int64(idx)), in.tb.BVConv(b, SBV32, false)}
	}
	dec := in.findFunc("unicode/utf8", "DecodeRuneInString")
	if dec == nil {
		panic(unsupported{"range over string with symbolic non-ASCII byte"})
	}
	res := in.call(nil, 0, dec, []value{in.strSlice(it.s, it.i, n)}).(tuple)
	idx := it.i
	it.i += in.toInt(res[1], "rune size")
	return tuple{in.tb.True, in.intConst(int64(idx)), res[0]}
}

func decodeRuneInString(s string) (rune, int) { return utf8.DecodeRuneInString(s) }

const mapOrderExhaustiveMax = 6

func (in *Interp) rangeIter(x value, t types.Type) iter {
	switch x := x.(type) {
	case *Map:
		it := &mapIter{m: x, fixed: in.rangeFixed}
		if x != nil {
			for _, e := range x.entries {
				if e.live {
					it.pending = append(it.pending, e)
				}
			}
			it.seen = len(x.entries)
		}
		return it
	case string, *Rope:
		return &stringIter{s: x}
	}
	in.checkOpaque(x)
	panic(fmt.Sprintf("cannot range over %T", x))
}

// ---- globals and package initialisation

func (in *Interp) globalAddr(g *ssa.Global) *value {
	if p, ok := in.path.globals[g]; ok {
		return p
	}
	pkg := g.Pkg
	if in.isStaticPkg(pkg) {
		if p, ok := in.staticGlobals[g]; ok {
			return p
		}
		in.initPackage(pkg, in.staticGlobals, true)
		return in.staticGlobals[g]
	}
	in.initPackage(pkg, in.path.globals, false)
	return in.path.globals[g]
}

var staticPkgs = map[string]bool{
	"unicode": true, "unicode/utf8": true, "unicode/utf16": true, "strings": true, "bytes": true,
	"io": true, "bufio": true, "errors": true, "sort": true, "slices": true, "strconv": true,
	"math": true, "math/bits": true, "internal/bytealg": true, "internal/stringslite": true,
	"internal/itoa": true, "io/fs": true, "internal/oserror": true, "syscall": true,
}

func (in *Interp) isStaticPkg(p *ssa.Package) bool {
	return staticPkgs[p.Pkg.Path()]
}

func (in *Interp) initPackage(pkg *ssa.Package, into map[*ssa.Global]*value, static bool) {
	for _, m := range pkg.Members {
		if g, ok := m.(*ssa.Global); ok {
			if _, done := into[g]; !done {
				cell := in.zero(mustDeref(g.Type()))
				into[g] = &cell
			}
		}
	}
	initFn := pkg.Func("init")
	if initFn == nil || initFn.Blocks == nil {
		return
	}
	// run the initialiser outside the path's budgets and decision vector
	saveSteps, saveDepth := in.path.steps, in.path.depth
	in.path.inInit++
	defer func() {
		in.path.inInit--
		in.path.steps, in.path.depth = saveSteps, saveDepth
	}()
	in.path.steps = -50_000_000
	func() {
		defer func() {
			if r := recover(); r != nil {
				switch r.(type) {
				case unsupported, targetPanic:
					// partially initialised package: remaining globals keep zero values
					in.noteInitProblem(pkg, fmt.Sprint(r))
				default:
					panic(r)
				}
			}
		}()
		in.callSSA(nil, token.NoPos, initFn, nil, nil)
	}()
}

// ---- function bookkeeping

func (in *Interp) noteFunction(fn *ssa.Function) {
	if in.path.inInit > 0 {
		return
	}
	in.funcs[fn]++
}

func (in *Interp) noteInitProblem(pkg *ssa.Package, what string) {
	if in.initProblems == nil {
		in.initProblems = map[string]string{}
	}
	in.initProblems[pkg.Pkg.Path()] = what
}

func fnPkgPath(fn *ssa.Function) string {
	if fn.Pkg != nil {
		return fn.Pkg.Pkg.Path()
	}
	if o := fn.Object(); o != nil && o.Pkg() != nil {
		return o.Pkg().Path()
	}
	if fn.Origin() != nil {
		return fnPkgPath(fn.Origin())
	}
	return ""
}

var _ = strings.HasPrefix
