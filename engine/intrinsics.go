package main

// Intrinsics: body-less or unsafe-using leaves of the executed stdlib closure, given
// exactly their Go semantics over concrete values and ropes.

import (
	"fmt"
	"go/types"
	"math"
	"regexp"
	"strconv"
	"strings"

	"golang.org/x/tools/go/ssa"
)

// bytesOf returns the byte terms of a []byte or string value.
func (in *Interp) bytesOf(v value) []*Term {
	switch v := v.(type) {
	case []value:
		res := make([]*Term, len(v))
		for i, e := range v {
			res[i] = e.(*Term)
		}
		return res
	case string, *Rope:
		r := in.ropeOf(v)
		r.byteLevel("byte scan")
		res := make([]*Term, len(r.atoms))
		for i, a := range r.atoms {
			res[i] = a.t
		}
		return res
	}
	in.checkOpaque(v)
	panic(fmt.Sprintf("bytesOf: %T", v))
}

// indexByte returns the first i with s[i]==c, or -1; forks on symbolic comparisons.
func (in *Interp) indexByte(s []*Term, c *Term) int {
	for i, b := range s {
		if in.branch(in.tb.Eq(b, c)) {
			return i
		}
	}
	return -1
}

func (in *Interp) indexSub(s, sub []*Term) int {
	n := len(sub)
	if n == 0 {
		return 0
	}
	for i := 0; i+n <= len(s); i++ {
		c := in.tb.True
		for j := 0; j < n; j++ {
			c = in.tb.And(c, in.tb.Eq(s[i+j], sub[j]))
		}
		if in.branch(c) {
			return i
		}
	}
	return -1
}

func (in *Interp) countSub(s, sub []*Term) int {
	n := len(sub)
	cnt := 0
	for i := 0; i+n <= len(s); {
		c := in.tb.True
		for j := 0; j < n; j++ {
			c = in.tb.And(c, in.tb.Eq(s[i+j], sub[j]))
		}
		if in.branch(c) {
			cnt++
			i += n
		} else {
			i++
		}
	}
	return cnt
}

func init() {
	ib := func(in *Interp, fr *frame, args []value) value {
		return in.intConst(int64(in.indexByte(in.bytesOf(args[0]), args[1].(*Term))))
	}
	externals["internal/bytealg.IndexByte"] = ib
	externals["internal/bytealg.IndexByteString"] = ib
	externals["bytes.IndexByte"] = ib
	externals["strings.IndexByte"] = ib
	externals["internal/stringslite.IndexByte"] = ib
	idx := func(in *Interp, fr *frame, args []value) value {
		return in.intConst(int64(in.indexSub(in.bytesOf(args[0]), in.bytesOf(args[1]))))
	}
	externals["internal/bytealg.Index"] = idx
	externals["internal/bytealg.IndexString"] = idx
	externals["strings.Index"] = idx
	externals["internal/stringslite.Index"] = idx
	cnt := func(in *Interp, fr *frame, args []value) value {
		c := args[1].(*Term)
		n := 0
		for _, b := range in.bytesOf(args[0]) {
			if in.branch(in.tb.Eq(b, c)) {
				n++
			}
		}
		return in.intConst(int64(n))
	}
	externals["internal/bytealg.Count"] = cnt
	externals["internal/bytealg.CountString"] = cnt
	externals["strings.Count"] = func(in *Interp, fr *frame, args []value) value {
		sub := in.bytesOf(args[1])
		s := in.bytesOf(args[0])
		if len(sub) == 0 {
			if str, ok := args[0].(string); ok {
				return in.intConst(int64(len([]rune(str)) + 1))
			}
			panic(unsupported{"strings.Count with empty separator on symbolic string"})
		}
		return in.intConst(int64(in.countSub(s, sub)))
	}
	// strings.IndexRune(s, r) with an ASCII-only concrete s: position of the byte equal to r
	externals["strings.IndexRune"] = func(in *Interp, fr *frame, args []value) value {
		s, ok := args[0].(string)
		r := args[1].(*Term)
		if !ok || r.IsConst() {
			if ok && r.IsConst() {
				return in.intConst(int64(strings.IndexRune(s, rune(r.SVal()))))
			}
			panic(unsupported{"strings.IndexRune on symbolic string"})
		}
		for i := 0; i < len(s); i++ {
			if s[i] >= 0x80 {
				panic(unsupported{"strings.IndexRune: symbolic rune in non-ASCII string"})
			}
			if in.branch(in.tb.Eq(r, in.tb.BV(SBV32, uint64(s[i])))) {
				return in.intConst(int64(i))
			}
		}
		return in.intConst(-1)
	}
	externals["internal/bytealg.MakeNoZero"] = func(in *Interp, fr *frame, args []value) value {
		n := in.toInt(args[0], "MakeNoZero")
		s := make([]value, n)
		z := in.tb.BV(SBV8, 0)
		for i := range s {
			s[i] = z
		}
		return s
	}
	externals["internal/bytealg.Equal"] = func(in *Interp, fr *frame, args []value) value {
		a, b := in.bytesOf(args[0]), in.bytesOf(args[1])
		if len(a) != len(b) {
			return in.tb.False
		}
		c := in.tb.True
		for i := range a {
			c = in.tb.And(c, in.tb.Eq(a[i], b[i]))
		}
		return c
	}
	externals["bytes.Equal"] = externals["internal/bytealg.Equal"]

	// strings.Builder: unsafe-free equivalents
	externals["(*strings.Builder).copyCheck"] = func(in *Interp, fr *frame, args []value) value { return nil }
	externals["(*strings.Builder).String"] = func(in *Interp, fr *frame, args []value) value {
		p := args[0].(*value)
		st := (*p).(structure)
		// fields: addr *Builder, buf []byte
		buf := st[1].([]value)
		r := &Rope{atoms: make([]Atom, len(buf))}
		for i, b := range buf {
			r.atoms[i].t = b.(*Term)
		}
		return normStr(r)
	}
	externals["(*strings.Builder).WriteString"] = func(in *Interp, fr *frame, args []value) value {
		p := args[0].(*value)
		st := (*p).(structure)
		buf, _ := st[1].([]value)
		r := in.ropeOf(args[1])
		r.byteLevel("strings.Builder.WriteString")
		for _, a := range r.atoms {
			buf = append(buf, a.t)
		}
		st[1] = buf
		return tuple{in.intConst(int64(len(r.atoms))), nilError()}
	}
	externals["strings.Clone"] = func(in *Interp, fr *frame, args []value) value { return args[0] }
	externals["internal/stringslite.Clone"] = externals["strings.Clone"]

	// reflectlite / reflect helpers used by sort.Slice*
	swapper := func(in *Interp, fr *frame, args []value) value {
		itf := args[0].(iface)
		s := itf.v.([]value)
		return &nativeFunc{name: "swapper", fn: func(in *Interp, a []value) value {
			i := in.toInt(a[0], "swap i")
			j := in.toInt(a[1], "swap j")
			s[i], s[j] = s[j], s[i]
			return nil
		}}
	}
	externals["internal/reflectlite.Swapper"] = swapper
	externals["reflect.Swapper"] = swapper
	externals["internal/reflectlite.ValueOf"] = func(in *Interp, fr *frame, args []value) value {
		return structure{args[0]} // carries the interface; only Len is supported
	}
	externals["(internal/reflectlite.Value).Len"] = func(in *Interp, fr *frame, args []value) value {
		itf := args[0].(structure)[0].(iface)
		switch v := itf.v.(type) {
		case []value:
			return in.intConst(int64(len(v)))
		}
		panic(unsupported{"reflectlite.Value.Len of non-slice"})
	}

	// math
	m1 := func(f func(float64) float64, name string) extFn {
		op := map[string]Op{"Ceil": OpFCeil, "Floor": OpFFloor, "Round": OpFRound}[name]
		return func(in *Interp, fr *frame, args []value) value {
			return in.tb.FRoundOp(op, args[0].(*Term))
		}
	}
	externals["math.Round"] = m1(math.Round, "Round")
	externals["math.Ceil"] = m1(math.Ceil, "Ceil")
	externals["math.Floor"] = m1(math.Floor, "Floor")
	externals["math.archCeil"] = m1(math.Ceil, "Ceil")
	externals["math.archFloor"] = m1(math.Floor, "Floor")
	externals["math.Abs"] = func(in *Interp, fr *frame, args []value) value {
		t := args[0].(*Term)
		if t.IsConst() {
			return in.tb.Float(math.Abs(t.FloatConstF64()))
		}
		return in.tb.Ite(in.tb.FLt(t, in.tb.Float(0)), in.tb.FNeg(t), t)
	}
	externals["math.Signbit"] = func(in *Interp, fr *frame, args []value) value {
		return in.tb.FIsNeg(args[0].(*Term))
	}
	externals["math.IsNaN"] = func(in *Interp, fr *frame, args []value) value {
		return in.tb.FIsNaN(args[0].(*Term))
	}
	externals["math.Float64bits"] = func(in *Interp, fr *frame, args []value) value {
		t := args[0].(*Term)
		if !t.IsConst() || FloatReal {
			panic(unsupported{"math.Float64bits"})
		}
		return in.tb.BV(SBV64, t.val)
	}

	// strconv on concrete operands
	externals["strconv.Itoa"] = func(in *Interp, fr *frame, args []value) value {
		t := args[0].(*Term)
		if !t.IsConst() {
			return &Rope{atoms: []Atom{in.newOpaque("%d", t)}}
		}
		return strconv.Itoa(int(t.SVal()))
	}
	externals["strconv.ParseFloat"] = stubParseFloat

	// sync: single-threaded execution
	nop := func(in *Interp, fr *frame, args []value) value { return nil }
	externals["(*sync.Mutex).Lock"] = nop
	externals["(*sync.Mutex).Unlock"] = nop
	externals["(*sync.RWMutex).Lock"] = nop
	externals["(*sync.RWMutex).Unlock"] = nop
	externals["(*sync.RWMutex).RLock"] = nop
	externals["(*sync.RWMutex).RUnlock"] = nop
	externals["(*sync.Once).Do"] = func(in *Interp, fr *frame, args []value) value {
		p := args[0].(*value)
		if _, done := in.path.side[p]; done {
			return nil
		}
		in.path.side[p] = true
		in.call(fr, 0, args[1], nil)
		return nil
	}
	// sync.Pool as a LIFO free list per path: Get returns the object put last, else New() (or nil).
	// The runtime may also drop pooled objects; reuse is the behaviour under which state left in a
	// pooled object by an earlier call becomes visible.
	externals["(*sync.Pool).Get"] = func(in *Interp, fr *frame, args []value) value {
		p := args[0].(*value)
		if l, ok := in.path.side[p].(*poolState); ok && len(l.items) > 0 {
			v := l.items[len(l.items)-1]
			l.items = l.items[:len(l.items)-1]
			return v
		}
		st := in.findType("sync", "Pool").Underlying().(*types.Struct)
		for i := 0; i < st.NumFields(); i++ {
			if st.Field(i).Name() == "New" {
				fn := (*p).(structure)[i]
				if isNilFunc(fn) {
					return iface{}
				}
				return in.call(fr, 0, fn, nil)
			}
		}
		return iface{}
	}
	externals["(*sync.Pool).Put"] = func(in *Interp, fr *frame, args []value) value {
		p := args[0].(*value)
		if itf, ok := args[1].(iface); ok && itf.t == nil {
			return nil
		}
		l, ok := in.path.side[p].(*poolState)
		if !ok {
			l = &poolState{}
			in.path.side[p] = l
		}
		l.items = append(l.items, args[1])
		return nil
	}
	externals["(*sync.WaitGroup).Add"] = nop
	externals["(*sync.WaitGroup).Done"] = nop
	externals["(*sync.WaitGroup).Wait"] = func(in *Interp, fr *frame, args []value) value {
		in.runPendingGoroutines(fr)
		return nil
	}
	externals["runtime.KeepAlive"] = nop
	externals["runtime.SetFinalizer"] = nop
}

type poolState struct{ items []value }

// nativeFunc is a function value implemented by the engine.
type nativeFunc struct {
	name string
	fn   func(in *Interp, args []value) value
}

// stubParseFloat: strconv.ParseFloat(s, 64). Concrete s: the real function. Symbolic s:
// an uninterpreted function of the bytes (value and acceptance), one per length.
func stubParseFloat(in *Interp, fr *frame, args []value) value {
	nerr := func(s value) value {
		et := in.findType("strconv", "NumError")
		z := in.zero(et).(structure)
		z[0] = "ParseFloat"
		z[1] = s
		z[2] = in.newError("invalid syntax")
		var cell value = z
		return iface{t: types.NewPointer(et), v: &cell}
	}
	if s, ok := args[0].(string); ok {
		if t, ok := in.path.nums[s]; ok {
			return tuple{t, nilError()} // a number token written by verifNum: its value is the solver variable
		}
		f, err := strconv.ParseFloat(s, 64)
		if err != nil {
			if FloatReal && (math.IsInf(f, 0) || math.IsNaN(f)) {
				f = 0
			}
			return tuple{in.tb.Float(f), nerr(s)}
		}
		if FloatReal && (math.IsInf(f, 0) || math.IsNaN(f)) {
			panic(pathEnd{"NaN/Inf literal outside the real-mode claim"})
		}
		return tuple{in.tb.Float(f), nilError()}
	}
	r := in.ropeOf(args[0])
	r.byteLevel("ParseFloat")
	n := len(r.atoms)
	bs := make([]*Term, n)
	for i, a := range r.atoms {
		bs[i] = a.t
	}
	if n == 0 {
		return tuple{in.tb.Float(0), nerr("")}
	}
	okT := in.pfOK(bs)
	val := in.tb.UF(fmt.Sprintf("pf%d", n), SFloat, bs...)
	if in.branch(okT) {
		return tuple{val, nilError()}
	}
	return tuple{in.tb.Float(0), nerr(args[0])}
}

// pfOK returns the acceptance predicate of ParseFloat for a token of symbolic bytes and
// asserts the library facts about it (once per token and path).
func (in *Interp) pfOK(bs []*Term) *Term {
	n := len(bs)
	okT := in.tb.UF(fmt.Sprintf("pfok%d", n), SBool, bs...)
	if in.path.pfSeen == nil {
		in.path.pfSeen = map[*Term]bool{}
	}
	if in.path.pfSeen[okT] {
		return okT
	}
	in.path.pfSeen[okT] = true
	// library facts: a token containing a blank, a colon or a quote is never accepted
	bad := in.tb.False
	for _, b := range bs {
		for _, c := range []byte{' ', '\t', ':', '"', '\n', '\r', '#', '/', ','} {
			bad = in.tb.Or(bad, in.tb.Eq(b, in.tb.BV(SBV8, uint64(c))))
		}
	}
	in.assume(in.tb.Or(in.tb.Not(bad), in.tb.Not(okT)))
	// a byte outside the alphabet of Go floating-point literals => rejected;
	// a token of decimal digits only => accepted
	alpha := "09++--..__eExXpPafAFiInNtTyY"
	outside, digits := in.tb.False, in.tb.True
	for _, b := range bs {
		inA := in.tb.False
		for i := 0; i+1 < len(alpha); i += 2 {
			lo, hi := in.tb.BV(SBV8, uint64(alpha[i])), in.tb.BV(SBV8, uint64(alpha[i+1]))
			inA = in.tb.Or(inA, in.tb.And(in.tb.BVULe(lo, b), in.tb.BVULe(b, hi)))
		}
		outside = in.tb.Or(outside, in.tb.Not(inA))
		digits = in.tb.And(digits, in.tb.And(in.tb.BVULe(in.tb.BV(SBV8, '0'), b), in.tb.BVULe(b, in.tb.BV(SBV8, '9'))))
	}
	in.assume(in.tb.Or(in.tb.Not(outside), in.tb.Not(okT)))
	// a plain decimal [+-]digits[.digits] (at least one digit) => accepted
	simple := in.simpleDecimal(bs)
	in.assume(in.tb.Or(in.tb.Not(simple), okT))
	in.path.pfTokens = append(in.path.pfTokens, in.tb.Or(in.tb.Not(okT), simple))
	if n == 1 {
		// a one-digit token has the value of its digit
		val := in.tb.UF("pf1", SFloat, bs[0])
		d := in.tb.IntToFloat(in.tb.BVSub(in.tb.BVConv(bs[0], SBV64, false), in.tb.BV(SBV64, '0')), true)
		in.assume(in.tb.Or(in.tb.Not(digits), in.tb.Eq(val, d)))
	}
	return okT
}

func (in *Interp) simpleDecimal(bs []*Term) *Term {
	tb := in.tb
	isDigit := func(b *Term) *Term { return tb.And(tb.BVULe(tb.BV(SBV8, '0'), b), tb.BVULe(b, tb.BV(SBV8, '9'))) }
	is := func(b *Term, c byte) *Term { return tb.Eq(b, tb.BV(SBV8, uint64(c))) }
	res := tb.False
	for sgn := 0; sgn <= 1 && sgn < len(bs); sgn++ {
		rest := bs[sgn:]
		k := len(rest)
		for dot := -1; dot < k; dot++ {
			if dot >= 0 && k < 2 {
				continue
			}
			pat := tb.True
			if sgn == 1 {
				pat = tb.Or(is(bs[0], '+'), is(bs[0], '-'))
			}
			for i, b := range rest {
				if i == dot {
					pat = tb.And(pat, is(b, '.'))
				} else {
					pat = tb.And(pat, isDigit(b))
				}
			}
			res = tb.Or(res, pat)
		}
	}
	return res
}

func init() {
	// verifPFOK(s): "ParseFloat accepts s" as a term, without forking
	shims["verifPFOK"] = func(in *Interp, fr *frame, args []value) value {
		if s, ok := args[0].(string); ok {
			_, err := strconv.ParseFloat(s, 64)
			return in.tb.Bool(err == nil)
		}
		r := in.ropeOf(args[0])
		r.byteLevel("verifPFOK")
		if len(r.atoms) == 0 {
			return in.tb.False
		}
		bs := make([]*Term, len(r.atoms))
		for i, a := range r.atoms {
			bs[i] = a.t
		}
		return in.pfOK(bs)
	}
}

func (in *Interp) callNative(nf *nativeFunc, args []value) value { return nf.fn(in, args) }

var _ = ssa.Function{}

func init() {
	// regexp.MatchString(pattern, s): the real function on concrete operands, otherwise an
	// uninterpreted predicate of the bytes of s (per pattern and length), nil error.
	externals["regexp.MatchString"] = func(in *Interp, fr *frame, args []value) value {
		pat, ok1 := args[0].(string)
		if !ok1 {
			panic(unsupported{"regexp.MatchString with symbolic pattern"})
		}
		if s, ok := args[1].(string); ok {
			m, err := regexp.MatchString(pat, s)
			if err != nil {
				return tuple{in.tb.False, in.newError(err.Error())}
			}
			return tuple{in.tb.Bool(m), nilError()}
		}
		if _, err := regexp.Compile(pat); err != nil {
			return tuple{in.tb.False, in.newError(err.Error())}
		}
		bs := in.bytesOf(args[1])
		if len(bs) == 0 {
			m, _ := regexp.MatchString(pat, "")
			return tuple{in.tb.Bool(m), nilError()}
		}
		return tuple{in.tb.UF(fmt.Sprintf("re_%x_%d", []byte(pat), len(bs)), SBool, bs...), nilError()}
	}
}

func init() {
	// (*regexp.Regexp).ReplaceAllString on concrete operands: the real function (native); the
	// pattern is read from the receiver's expr field
	externals["(*regexp.Regexp).ReplaceAllString"] = func(in *Interp, fr *frame, args []value) value {
		p, ok := args[0].(*value)
		if !ok || p == nil {
			panic(targetPanic{msg: "runtime error: invalid memory address or nil pointer dereference (nil *regexp.Regexp)"})
		}
		st, ok := (*p).(structure)
		if !ok {
			panic(unsupported{"regexp.Regexp value is opaque"})
		}
		expr, ok1 := st[0].(string)
		src, ok2 := args[1].(string)
		repl, ok3 := args[2].(string)
		if !ok1 || !ok2 || !ok3 {
			panic(unsupported{"(*regexp.Regexp).ReplaceAllString with symbolic operands"})
		}
		re, err := regexp.Compile(expr)
		if err != nil {
			panic(unsupported{"regexp does not compile natively: " + expr})
		}
		return re.ReplaceAllString(src, repl)
	}
}

func init() {
	cmp := func(in *Interp, fr *frame, args []value) value {
		a, ok1 := args[0].(string)
		b, ok2 := args[1].(string)
		if ok1 && ok2 {
			return in.intConst(int64(strings.Compare(a, b)))
		}
		if in.branch(in.strEq(args[0], args[1])) {
			return in.intConst(0)
		}
		if in.branch(in.strLess(args[0], args[1])) {
			return in.intConst(-1)
		}
		return in.intConst(1)
	}
	externals["internal/bytealg.abigen_runtime_cmpstring"] = cmp
	externals["internal/bytealg.CompareString"] = cmp
	externals["runtime.cmpstring"] = cmp
	externals["strings.Compare"] = cmp
}

// errors.Is with Go's semantics (==, Is method, Unwrap chains); the real function goes
// through reflectlite.TypeOf, which the executor cannot run.
// anyMethod returns the method of t named name, or nil.
func (in *Interp) anyMethod(t types.Type, name string) *ssa.Function {
	ms := in.prog.MethodSets.MethodSet(t)
	for i := 0; i < ms.Len(); i++ {
		if sel := ms.At(i); sel.Obj().Name() == name {
			return in.prog.MethodValue(sel)
		}
	}
	return nil
}

func (in *Interp) errorsIs(fr *frame, err, target value, depth int) bool {
	if depth > 50 {
		panic(unsupported{"errors.Is: unwrap chain too long"})
	}
	e, ok := err.(iface)
	if !ok {
		in.checkOpaque(err)
		panic(fmt.Sprintf("errors.Is on %T", err))
	}
	t, _ := target.(iface)
	if e.t == nil {
		return t.t == nil
	}
	if t.t != nil && types.Comparable(t.t) && types.Identical(e.t, t.t) {
		if in.branch(in.equals(e.t, e.v, t.v)) {
			return true
		}
	}
	if m := in.anyMethod(e.t, "Is"); m != nil && m.Signature.Params().Len() == 1 && m.Signature.Results().Len() == 1 {
		if r, ok := in.call(fr, 0, m, []value{e.v, target}).(*Term); ok && in.branch(r) {
			return true
		}
	}
	if m := in.anyMethod(e.t, "Unwrap"); m != nil && m.Signature.Params().Len() == 0 && m.Signature.Results().Len() == 1 {
		res := in.call(fr, 0, m, []value{e.v})
		switch r := res.(type) {
		case iface:
			if r.t == nil {
				return false
			}
			return in.errorsIs(fr, r, target, depth+1)
		case []value:
			for _, x := range r {
				if in.errorsIs(fr, x, target, depth+1) {
					return true
				}
			}
			return false
		}
	}
	return false
}

func init() {
	externals["errors.Is"] = func(in *Interp, fr *frame, args []value) value {
		return in.tb.Bool(in.errorsIs(fr, args[0], args[1], 0))
	}
	// errors.As(err, target): target is a non-nil pointer to a variable of an interface type or of
	// a type implementing error; the first error of the chain assignable to it is stored
	externals["errors.As"] = func(in *Interp, fr *frame, args []value) value {
		tgt, ok := args[1].(iface)
		if !ok || tgt.t == nil {
			panic(targetPanic{msg: "errors: target cannot be nil"})
		}
		pt, ok := tgt.t.Underlying().(*types.Pointer)
		p, ok2 := tgt.v.(*value)
		if !ok || !ok2 || p == nil {
			panic(targetPanic{msg: "errors: target must be a non-nil pointer"})
		}
		elem := pt.Elem()
		err := args[0]
		for depth := 0; depth < 50; depth++ {
			e, ok := err.(iface)
			if !ok || e.t == nil {
				return in.tb.False
			}
			if it, isItf := elem.Underlying().(*types.Interface); isItf {
				if types.Implements(e.t, it) {
					store(elem, p, e)
					return in.tb.True
				}
			} else if types.Identical(e.t, elem) {
				store(elem, p, e.v)
				return in.tb.True
			}
			if m := in.anyMethod(e.t, "As"); m != nil && m.Signature.Params().Len() == 1 {
				if r, ok := in.call(fr, 0, m, []value{e.v, args[1]}).(*Term); ok && in.branch(r) {
					return in.tb.True
				}
			}
			m := in.anyMethod(e.t, "Unwrap")
			if m == nil || m.Signature.Params().Len() != 0 || m.Signature.Results().Len() != 1 {
				return in.tb.False
			}
			res := in.call(fr, 0, m, []value{e.v})
			r, ok := res.(iface)
			if !ok {
				panic(unsupported{"errors.As: Unwrap() []error"})
			}
			err = r
		}
		panic(unsupported{"errors.As: unwrap chain too long"})
	}
}
