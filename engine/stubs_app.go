package main

// Process-level environment for whole-application harnesses: standard output as a recording
// sink that can fail from its j-th write, environment variables, the current user.

import (
	"fmt"
	"go/types"
)

type stdoutState struct {
	atoms  []Atom
	failAt int
	writes int
	failed bool
}

func (in *Interp) osGlobal(name string) *value {
	for _, p := range in.prog.AllPackages() {
		if p.Pkg.Path() == "os" {
			if g := p.Var(name); g != nil {
				return in.globalAddr(g)
			}
		}
	}
	panic(unsupported{"os." + name + " not found"})
}

func (in *Interp) stdoutOf(v value) *stdoutState {
	p, ok := v.(*value)
	if !ok || p == nil {
		return nil
	}
	st, _ := in.path.side[p].(*stdoutState)
	return st
}

func init() {
	// verifStdoutBegin(failAt): os.Stdout becomes a recording sink failing from write failAt on (<0: never)
	shims["verifStdoutBegin"] = func(in *Interp, fr *frame, args []value) value {
		t := in.findType("os", "File")
		mk := func(failAt int) *value {
			cell := in.zero(t)
			p := &cell
			in.path.side[p] = &stdoutState{failAt: failAt}
			return p
		}
		out := mk(in.toInt(args[0], "failAt"))
		*in.osGlobal("Stdout") = out
		*in.osGlobal("Stderr") = mk(-1)
		in.path.stdout = out
		return nil
	}
	shims["verifStdoutEnd"] = func(in *Interp, fr *frame, args []value) value {
		st := in.stdoutOf(in.path.stdout)
		if st == nil {
			panic(unsupported{"verifStdoutEnd without verifStdoutBegin"})
		}
		return normStr(&Rope{atoms: st.atoms})
	}
	shims["verifStdoutFailed"] = func(in *Interp, fr *frame, args []value) value {
		st := in.stdoutOf(in.path.stdout)
		return in.tb.Bool(st != nil && st.failed)
	}
	shims["verifStdoutWrites"] = func(in *Interp, fr *frame, args []value) value {
		st := in.stdoutOf(in.path.stdout)
		if st == nil {
			return in.intConst(0)
		}
		return in.intConst(int64(st.writes))
	}
	fileWrite := func(in *Interp, fr *frame, f value, data value) value {
		st := in.stdoutOf(f)
		if st == nil {
			panic(unsupported{"write to an *os.File that is not the virtual standard output"})
		}
		if st.failAt >= 0 && st.writes >= st.failAt {
			st.writes++
			st.failed = true
			return tuple{in.intConst(0), in.pathError("write", "/dev/stdout", "no space left on device")}
		}
		st.writes++
		st.atoms = append(st.atoms, in.ropeOf(data).atoms...)
		return tuple{in.strLen(data), nilError()}
	}
	externals["(*os.File).Write"] = func(in *Interp, fr *frame, args []value) value {
		return fileWrite(in, fr, args[0], in.conv(types.Typ[types.String], types.NewSlice(types.Typ[types.Byte]), args[1]))
	}
	externals["(*os.File).WriteString"] = func(in *Interp, fr *frame, args []value) value {
		return fileWrite(in, fr, args[0], args[1])
	}

	// verifHomeFile(rel, content): a file below the current user's home directory
	shims["verifHomeFile"] = func(in *Interp, fr *frame, args []value) value {
		name := "/virtual/home" + in.concStr(args[0], "path below the home directory")
		in.vfs()[name] = &vfile{name: name, content: args[1], exists: true}
		return name
	}
	// verifDir(tag): a directory; opening it succeeds, reading it fails
	shims["verifDir"] = func(in *Interp, fr *frame, args []value) value {
		name := "/virtual/dir/" + in.concStr(args[0], "directory tag")
		in.vfs()[name] = &vfile{name: name, content: "", exists: true, isDir: true}
		return name
	}
	// verifNum(tag): a number token whose bytes are fixed text and whose VALUE (what
	// strconv.ParseFloat returns for exactly this token) is a solver variable
	shims["verifNum"] = func(in *Interp, fr *frame, args []value) value {
		tag := in.concStr(args[0], "tag")
		if in.path.nums == nil {
			in.path.nums = map[string]*Term{}
		}
		t := in.newInput(tag, "float", SFloat)
		tok := fmt.Sprintf("@n.%s.%d", tagRe.ReplaceAllString(tag, "_"), len(in.path.nums))
		in.path.nums[tok] = t
		return tuple{tok, t}
	}
	// environment
	shims["verifSetenv"] = func(in *Interp, fr *frame, args []value) value {
		if in.path.env == nil {
			in.path.env = map[string]value{}
		}
		in.path.env[in.concStr(args[0], "environment variable name")] = args[1]
		return nil
	}
	lookup := func(in *Interp, fr *frame, args []value) value {
		name, ok := args[0].(string)
		if !ok {
			panic(unsupported{"environment lookup with symbolic name"})
		}
		if v, ok := in.path.env[name]; ok {
			return tuple{v, in.tb.True}
		}
		return tuple{"", in.tb.False}
	}
	externals["os.LookupEnv"] = lookup
	externals["syscall.Getenv"] = lookup
	externals["os.Getenv"] = func(in *Interp, fr *frame, args []value) value {
		return lookup(in, fr, args).(tuple)[0]
	}
	// the current user: home directory /virtual/home (nothing exists below it unless registered)
	externals["os/user.Current"] = func(in *Interp, fr *frame, args []value) value {
		t := in.findType("os/user", "User")
		z := in.zero(t).(structure)
		st := t.Underlying().(*types.Struct)
		for i := 0; i < st.NumFields(); i++ {
			switch st.Field(i).Name() {
			case "Uid", "Gid":
				z[i] = "1000"
			case "Username", "Name":
				z[i] = "verif"
			case "HomeDir":
				z[i] = "/virtual/home"
			}
		}
		var cell value = z
		return tuple{&cell, nilError()}
	}
}
