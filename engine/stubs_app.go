package main

// Process-level environment for whole-application harnesses: standard output as a recording
// sink that can fail from its j-th write, environment variables, the current user.

import (
	"fmt"
	"go/types"

	"golang.org/x/tools/go/ssa"
)

type stdoutState struct {
	atoms  []Atom
	failAt int
	writes int
	failed bool
	pipe   bool // the failing sink is a closed pipe (EPIPE / SIGPIPE) instead of a full device (ENOSPC)
}

// exitPanic ends the program under test: os.Exit, log.Fatal or death by signal.
type exitPanic struct {
	code   int
	signal bool
}

func (in *Interp) errnoError(op, name string, errno uint64) value {
	et := in.findType("io/fs", "PathError")
	z := in.zero(et).(structure)
	z[0] = op
	z[1] = name
	z[2] = iface{t: in.findType("syscall", "Errno"), v: in.tb.BV(SBV64, errno)}
	var cell value = z
	return iface{t: types.NewPointer(et), v: &cell}
}

func (in *Interp) osGlobal(name string) *value {
	for _, p := range in.prog.AllPackages() {
		if p.Pkg.Path() == "os" {
			if g := p.Var(name); g != nil {
				return in.globalAddr(g)
			}
		}
	}
	panic(unsupported{"os." + name + " not found"})
}

func (in *Interp) stdoutOf(v value) *stdoutState {
	p, ok := v.(*value)
	if !ok || p == nil {
		return nil
	}
	st, _ := in.path.side[p].(*stdoutState)
	return st
}

func init() {
	// verifStdoutBegin(failAt): os.Stdout becomes a recording sink failing from write failAt on (<0: never)
	shims["verifStdoutBegin"] = func(in *Interp, fr *frame, args []value) value {
		t := in.findType("os", "File")
		mk := func(failAt int) *value {
			cell := in.zero(t)
			p := &cell
			in.path.side[p] = &stdoutState{failAt: failAt}
			return p
		}
		out := mk(in.toInt(args[0], "failAt"))
		*in.osGlobal("Stdout") = out
		*in.osGlobal("Stderr") = mk(-1)
		in.path.stdout = out
		return nil
	}
	shims["verifStdoutEnd"] = func(in *Interp, fr *frame, args []value) value {
		st := in.stdoutOf(in.path.stdout)
		if st == nil {
			panic(unsupported{"verifStdoutEnd without verifStdoutBegin"})
		}
		return normStr(&Rope{atoms: st.atoms})
	}
	shims["verifStdoutFailed"] = func(in *Interp, fr *frame, args []value) value {
		st := in.stdoutOf(in.path.stdout)
		return in.tb.Bool(st != nil && st.failed)
	}
	shims["verifStdoutWrites"] = func(in *Interp, fr *frame, args []value) value {
		st := in.stdoutOf(in.path.stdout)
		if st == nil {
			return in.intConst(0)
		}
		return in.intConst(int64(st.writes))
	}
	fileWrite := func(in *Interp, fr *frame, f value, data value) value {
		st := in.stdoutOf(f)
		if st == nil {
			panic(unsupported{"write to an *os.File that is not the virtual standard output"})
		}
		if st.failAt >= 0 && st.writes >= st.failAt {
			st.writes++
			st.failed = true
			if st.pipe {
				if !in.path.sigpipeIgnored {
					// a write to a closed pipe on descriptor 1 raises SIGPIPE; not ignored: the process dies
					panic(exitPanic{code: 141, signal: true})
				}
				return tuple{in.intConst(0), in.errnoError("write", "/dev/stdout", 32)} // EPIPE
			}
			return tuple{in.intConst(0), in.errnoError("write", "/dev/stdout", 28)} // ENOSPC
		}
		st.writes++
		st.atoms = append(st.atoms, in.ropeOf(data).atoms...)
		return tuple{in.strLen(data), nilError()}
	}
	externals["(*os.File).Write"] = func(in *Interp, fr *frame, args []value) value {
		return fileWrite(in, fr, args[0], in.conv(types.Typ[types.String], types.NewSlice(types.Typ[types.Byte]), args[1]))
	}
	externals["(*os.File).WriteString"] = func(in *Interp, fr *frame, args []value) value {
		return fileWrite(in, fr, args[0], args[1])
	}

	// verifHomeFile(rel, content): a file below the current user's home directory
	shims["verifHomeFile"] = func(in *Interp, fr *frame, args []value) value {
		name := "/virtual/home" + in.concStr(args[0], "path below the home directory")
		in.vfs()[name] = &vfile{name: name, content: args[1], exists: true}
		return name
	}
	// verifDir(tag): a directory; opening it succeeds, reading it fails
	shims["verifDir"] = func(in *Interp, fr *frame, args []value) value {
		name := "/virtual/dir/" + in.concStr(args[0], "directory tag")
		in.vfs()[name] = &vfile{name: name, content: "", exists: true, isDir: true}
		return name
	}
	// verifMain(kind, args): the program's main() with os.Args = args and standard output
	// 0 healthy, 1 a full device (every write fails with ENOSPC), 2 a closed pipe (SIGPIPE, or
	// EPIPE when the program ignores the signal); returns the exit status (0 when main returns)
	shims["verifMain"] = func(in *Interp, fr *frame, args []value) (res value) {
		kind := in.toInt(args[0], "stdout kind")
		t := in.findType("os", "File")
		mk := func(failAt int, pipe bool) *value {
			cell := in.zero(t)
			p := &cell
			in.path.side[p] = &stdoutState{failAt: failAt, pipe: pipe}
			return p
		}
		failAt := -1
		if kind != 0 {
			failAt = 0
		}
		out := mk(failAt, kind == 2)
		*in.osGlobal("Stdout") = out
		*in.osGlobal("Stderr") = mk(-1, false)
		in.path.stdout = out
		in.path.sigpipeIgnored = false
		osArgs := []value{}
		for _, a := range args[1].([]value) {
			osArgs = append(osArgs, a)
		}
		*in.osGlobal("Args") = osArgs
		var mainFn *ssa.Function
		for _, p := range in.prog.AllPackages() {
			if p.Pkg.Name() == "main" && p.Func("main") != nil && p.Func("GetApp") != nil {
				mainFn = p.Func("main")
			}
		}
		if mainFn == nil {
			panic(unsupported{"verifMain: no main function"})
		}
		defer func() {
			if r := recover(); r != nil {
				if e, ok := r.(exitPanic); ok {
					res = in.intConst(int64(e.code))
					return
				}
				panic(r)
			}
		}()
		in.call(fr, 0, mainFn, nil)
		return in.intConst(0)
	}
	// verifMainOut(args): main() as a FRESH process - every package-level variable of the program is
	// back to its initial state - with os.Args = args; returns what it wrote to standard output
	// and its exit status. Natively a child process.
	shims["verifMainOut"] = func(in *Interp, fr *frame, args []value) (res value) {
		keepFiles, keepEnv := in.path.files, in.path.env
		in.path.globals = map[*ssa.Global]*value{}
		in.path.files, in.path.env = keepFiles, keepEnv
		t := in.findType("os", "File")
		mk := func() *value {
			cell := in.zero(t)
			p := &cell
			in.path.side[p] = &stdoutState{failAt: -1}
			return p
		}
		out := mk()
		*in.osGlobal("Stdout") = out
		*in.osGlobal("Stderr") = mk()
		in.path.stdout = out
		in.path.sigpipeIgnored = false
		osArgs := []value{}
		for _, a := range args[0].([]value) {
			osArgs = append(osArgs, a)
		}
		*in.osGlobal("Args") = osArgs
		var mainFn *ssa.Function
		for _, p := range in.prog.AllPackages() {
			if p.Pkg.Name() == "main" && p.Func("main") != nil && p.Func("GetApp") != nil {
				mainFn = p.Func("main")
			}
		}
		if mainFn == nil {
			panic(unsupported{"verifMainOut: no main function"})
		}
		code := 0
		func() {
			defer func() {
				if r := recover(); r != nil {
					if e, ok := r.(exitPanic); ok {
						code = e.code
						return
					}
					panic(r)
				}
			}()
			in.call(fr, 0, mainFn, nil)
		}()
		st := in.stdoutOf(out)
		// the harness's own run continues in a fresh state as well
		in.path.globals = map[*ssa.Global]*value{}
		return tuple{normStr(&Rope{atoms: st.atoms}), in.intConst(int64(code))}
	}
	externals["os.Exit"] = func(in *Interp, fr *frame, args []value) value {
		panic(exitPanic{code: in.toInt(args[0], "exit status")})
	}
	fatal := func(in *Interp, fr *frame, args []value) value { panic(exitPanic{code: 1}) }
	externals["log.Fatal"] = fatal
	externals["log.Fatalf"] = fatal
	externals["log.Fatalln"] = fatal
	externals["os/signal.Ignore"] = func(in *Interp, fr *frame, args []value) value {
		sigs, _ := args[0].([]value)
		if len(sigs) == 0 {
			in.path.sigpipeIgnored = true // Ignore() without arguments ignores every signal
		}
		for _, sg := range sigs {
			if itf, ok := sg.(iface); ok {
				if t, ok := itf.v.(*Term); ok && t.IsConst() && t.val == 13 {
					in.path.sigpipeIgnored = true
				}
			}
		}
		return nil
	}
	externals["os/signal.Notify"] = func(in *Interp, fr *frame, args []value) value {
		panic(unsupported{"signal.Notify"})
	}
	// verifNum(tag): a number token whose bytes are fixed text and whose VALUE (what
	// strconv.ParseFloat returns for exactly this token) is a solver variable
	shims["verifNum"] = func(in *Interp, fr *frame, args []value) value {
		tag := in.concStr(args[0], "tag")
		if in.path.nums == nil {
			in.path.nums = map[string]*Term{}
		}
		t := in.newInput(tag, "float", SFloat)
		tok := fmt.Sprintf("@n.%s.%d", tagRe.ReplaceAllString(tag, "_"), len(in.path.nums))
		in.path.nums[tok] = t
		return tuple{tok, t}
	}
	// environment
	shims["verifSetenv"] = func(in *Interp, fr *frame, args []value) value {
		if in.path.env == nil {
			in.path.env = map[string]value{}
		}
		in.path.env[in.concStr(args[0], "environment variable name")] = args[1]
		return nil
	}
	lookup := func(in *Interp, fr *frame, args []value) value {
		name, ok := args[0].(string)
		if !ok {
			panic(unsupported{"environment lookup with symbolic name"})
		}
		if v, ok := in.path.env[name]; ok {
			return tuple{v, in.tb.True}
		}
		return tuple{"", in.tb.False}
	}
	externals["os.LookupEnv"] = lookup
	externals["syscall.Getenv"] = lookup
	externals["os.Getenv"] = func(in *Interp, fr *frame, args []value) value {
		return lookup(in, fr, args).(tuple)[0]
	}
	// the current user: home directory /virtual/home (nothing exists below it unless registered)
	externals["os/user.Current"] = func(in *Interp, fr *frame, args []value) value {
		t := in.findType("os/user", "User")
		z := in.zero(t).(structure)
		st := t.Underlying().(*types.Struct)
		for i := 0; i < st.NumFields(); i++ {
			switch st.Field(i).Name() {
			case "Uid", "Gid":
				z[i] = "1000"
			case "Username", "Name":
				z[i] = "verif"
			case "HomeDir":
				z[i] = "/virtual/home"
			}
		}
		var cell value = z
		return tuple{&cell, nilError()}
	}
}
