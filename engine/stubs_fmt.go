package main

// Contract-level model of fmt: literal text verbatim, %s of strings inlined, numeric
// verbs rendered natively when their operand is concrete and as opaque pieces otherwise.

import (
	"fmt"
	"go/types"
	"strconv"
	"strings"
	"unicode/utf8"
)

// renderBytes models the rendering of a float with a fixed-precision verb as d symbolic
// bytes (d forked over 4..RenderMax) that are a function of the value: byte_i = f2b_<verb>_<d>_<i>(v).
// Assumed library facts: the bytes are digits, '.', '-' only and strconv.ParseFloat accepts
// them; rendering ParseFloat(render(v)) gives render(v) again (recognised syntactically).
func (in *Interp) renderBytes(verb string, t *Term) []Atom {
	if in.path.rendered == nil {
		in.path.rendered = map[string][]Atom{}
	}
	key := fmt.Sprintf("%s\x00%d", verb, t.id)
	if a, ok := in.path.rendered[key]; ok {
		return a
	}
	// render(parse(render(v))) = render(v)
	if t.op == OpUF && strings.HasPrefix(t.name, "pf") {
		for k, atoms := range in.path.rendered {
			if !strings.HasPrefix(k, verb+"\x00") || len(atoms) != len(t.args) {
				continue
			}
			same := true
			for i := range atoms {
				if atoms[i].t != t.args[i] {
					same = false
					break
				}
			}
			if same {
				in.path.rendered[key] = atoms
				return atoms
			}
		}
	}
	d := 4 + in.choose(in.cfg.RenderMax-3, "render-len")
	atoms := make([]Atom, d)
	bs := make([]*Term, d)
	vname := tagRe.ReplaceAllString(verb, "_")
	for i := 0; i < d; i++ {
		b := in.tb.UF(fmt.Sprintf("f2b_%s_%d_%d", vname, d, i), SBV8, t)
		atoms[i].t = b
		bs[i] = b
	}
	// shape [-]digits.digits
	simple := in.simpleDecimal(bs)
	in.assume(simple)
	in.assume(in.pfOK(bs))
	in.path.rendered[key] = atoms
	return atoms
}

func (in *Interp) newOpaque(verb string, arg value) Atom {
	// hash-cons on (verb, term) so equal renderings are the same piece
	key := verb + "\x00"
	if t, ok := arg.(*Term); ok {
		key += fmt.Sprintf("t%d", t.id)
		if id, ok := in.path.opaqueIDs[key]; ok {
			return Atom{op: &Opaque{verb: verb, arg: arg, id: id}}
		}
	} else {
		key = ""
	}
	in.path.opaqueN++
	id := in.path.opaqueN
	if key != "" {
		if in.path.opaqueIDs == nil {
			in.path.opaqueIDs = map[string]int{}
		}
		in.path.opaqueIDs[key] = id
	}
	return Atom{op: &Opaque{verb: verb, arg: arg, id: id}}
}

func (in *Interp) litAtoms(s string) []Atom {
	return in.ropeOf(s).atoms
}

// stringish returns the string content of an operand if it is a string, error or Stringer.
func (in *Interp) stringish(fr *frame, a value) (value, bool) {
	itf, ok := a.(iface)
	if !ok {
		if s, ok := a.(string); ok {
			return s, true
		}
		if r, ok := a.(*Rope); ok {
			return r, true
		}
		return nil, false
	}
	if itf.t == nil {
		return "<nil>", true
	}
	if isString(itf.t) {
		// named string types with an Error/String method take the method
		if m := in.methodOf(itf.t, "Error"); m != nil {
			return in.call(fr, 0, m, []value{itf.v}), true
		}
		if m := in.methodOf(itf.t, "String"); m != nil {
			return in.call(fr, 0, m, []value{itf.v}), true
		}
		return itf.v, true
	}
	if m := in.methodOf(itf.t, "Error"); m != nil {
		if p, ok := itf.v.(*value); ok && p == nil {
			return "<nil>", true
		}
		return in.call(fr, 0, m, []value{itf.v}), true
	}
	if m := in.methodOf(itf.t, "String"); m != nil {
		if p, ok := itf.v.(*value); ok && p == nil {
			return "<nil>", true
		}
		return in.call(fr, 0, m, []value{itf.v}), true
	}
	return nil, false
}

func (in *Interp) methodOf(t types.Type, name string) value {
	ms := in.prog.MethodSets.MethodSet(t)
	for i := 0; i < ms.Len(); i++ {
		sel := ms.At(i)
		if sel.Obj().Name() == name {
			sig := sel.Type().(*types.Signature)
			if sig.Params().Len() == 0 && sig.Results().Len() == 1 && isString(sig.Results().At(0).Type()) {
				if f := in.prog.MethodValue(sel); f != nil {
					return f
				}
			}
		}
	}
	return nil
}

func unwrapIface(a value) (types.Type, value) {
	if itf, ok := a.(iface); ok {
		return itf.t, itf.v
	}
	return nil, a
}

// renderScalar renders a concrete scalar with a native verb; ok=false if not concrete.
func (in *Interp) renderScalar(verb string, t types.Type, v value) (string, bool) {
	tm, ok := v.(*Term)
	if !ok || !tm.IsConst() || t == nil {
		return "", false
	}
	b, ok := t.Underlying().(*types.Basic)
	if !ok {
		return "", false
	}
	switch {
	case b.Info()&types.IsBoolean != 0:
		return fmt.Sprintf(verb, tm.BoolVal()), true
	case b.Info()&types.IsFloat != 0:
		if !in.cfg.ConcreteFmt {
			return "", false
		}
		return fmt.Sprintf(verb, tm.FloatConstF64()), true
	case b.Info()&types.IsInteger != 0:
		if b.Info()&types.IsUnsigned != 0 {
			return fmt.Sprintf(verb, tm.UVal()), true
		}
		switch b.Kind() {
		case types.Int32:
			return fmt.Sprintf(verb, int32(tm.SVal())), true
		case types.Int8:
			return fmt.Sprintf(verb, int8(tm.SVal())), true
		}
		return fmt.Sprintf(verb, tm.SVal()), true
	}
	return "", false
}

func padAtoms(in *Interp, atoms []Atom, width int, left bool, runes int) []Atom {
	if width <= runes {
		return atoms
	}
	pad := in.litAtoms(strings.Repeat(" ", width-runes))
	if left {
		return append(append([]Atom{}, atoms...), pad...)
	}
	return append(append([]Atom{}, pad...), atoms...)
}

// runeCount counts runes of a rope if it can be determined (ASCII or concrete).
func (in *Interp) runeCount(r *Rope) (int, bool) {
	if r.hasOpaque() {
		return 0, false
	}
	allConst := true
	for _, a := range r.atoms {
		if !a.t.IsConst() {
			allConst = false
			break
		}
	}
	if allConst {
		s := normStr(r).(string)
		return utf8.RuneCountInString(s), true
	}
	return 0, false
}

// format implements Sprintf semantics over ropes.
// formatV formats with a format string that may contain symbolic bytes (a name concatenated
// into the format). Every symbolic byte is tested for being '%' (a fork): if one may be, the
// result on that side is an opaque "garbled" piece - what fmt prints then depends on the bytes
// that follow and is not modelled; otherwise the symbolic bytes are literal text and the
// constant chunks between them are formatted in turn, consuming the operands in order.
func (in *Interp) formatV(fr *frame, fv value, args []value) value {
	if s, ok := fv.(string); ok {
		return in.format(fr, s, args)
	}
	r := in.ropeOf(fv)
	var out []Atom
	chunk := []byte{}
	flush := func() {
		if len(chunk) == 0 {
			return
		}
		f := string(chunk)
		chunk = chunk[:0]
		// a chunk must not end inside a verb
		if i := strings.LastIndexByte(f, '%'); i >= 0 {
			rest := strings.TrimLeft(f[i+1:], "+-# 0123456789.")
			if rest == "" && (i == 0 || f[i-1] != '%' || strings.Count(f[:i], "%")%2 == 0) {
				panic(unsupported{"symbolic byte inside a formatting verb"})
			}
		}
		n := 0
		for j := 0; j < len(f); j++ {
			if f[j] == '%' {
				if j+1 < len(f) && f[j+1] == '%' {
					j++
					continue
				}
				n++
			}
		}
		if n > len(args) {
			n = len(args)
		}
		out = append(out, in.ropeOf(in.format(fr, f, args[:n])).atoms...)
		args = args[n:]
	}
	for _, a := range r.atoms {
		if a.op != nil {
			panic(unsupported{"rendered piece inside a format string"})
		}
		if a.t.IsConst() {
			chunk = append(chunk, byte(a.t.val))
			continue
		}
		if in.branch(in.tb.Eq(a.t, in.tb.BV(SBV8, '%'))) {
			in.path.labels["format-string"] = "contains a symbolic % byte"
			return &Rope{atoms: []Atom{in.newOpaque("fmt-garbled", fv)}}
		}
		flush()
		out = append(out, a)
	}
	flush()
	if len(args) > 0 {
		out = append(out, in.litAtoms("%!(EXTRA)")...)
	}
	return normStr(&Rope{atoms: out})
}

func (in *Interp) format(fr *frame, f string, args []value) value {
	var out []Atom
	argi := 0
	i := 0
	for i < len(f) {
		j := strings.IndexByte(f[i:], '%')
		if j < 0 {
			out = append(out, in.litAtoms(f[i:])...)
			break
		}
		out = append(out, in.litAtoms(f[i:i+j])...)
		i += j
		// parse verb
		k := i + 1
		for k < len(f) && strings.IndexByte("+-# 0", f[k]) >= 0 {
			k++
		}
		flags := f[i+1 : k]
		ws := k
		for k < len(f) && f[k] >= '0' && f[k] <= '9' {
			k++
		}
		width := -1
		if k > ws {
			width, _ = strconv.Atoi(f[ws:k])
		}
		if k < len(f) && f[k] == '.' {
			k++
			for k < len(f) && f[k] >= '0' && f[k] <= '9' {
				k++
			}
		}
		if k >= len(f) {
			out = append(out, in.litAtoms("%!(NOVERB)")...)
			break
		}
		verb := f[i : k+1]
		vc := f[k]
		i = k + 1
		if vc == '%' {
			out = append(out, in.litAtoms("%")...)
			continue
		}
		if strings.Contains(verb, "*") || strings.Contains(verb, "[") {
			panic(unsupported{"fmt verb " + verb})
		}
		if argi >= len(args) {
			out = append(out, in.litAtoms("%!"+string(vc)+"(MISSING)")...)
			continue
		}
		a := args[argi]
		argi++
		t, v := unwrapIface(a)
		switch vc {
		case 's', 'v':
			if sv, ok := in.stringish(fr, a); ok {
				r := in.ropeOf(sv)
				if width < 0 {
					out = append(out, r.atoms...)
				} else if n, ok := in.runeCount(r); ok {
					out = append(out, padAtoms(in, r.atoms, width, strings.Contains(flags, "-"), n)...)
				} else {
					out = append(out, in.newOpaque(verb, &Rope{atoms: r.atoms}))
				}
				continue
			}
			if s, ok := in.renderScalar(verb, t, v); ok {
				out = append(out, in.litAtoms(s)...)
				continue
			}
			out = append(out, in.newOpaque(verb, v))
		case 'q':
			if sv, ok := in.stringish(fr, a); ok {
				if s, ok := sv.(string); ok {
					out = append(out, in.litAtoms(fmt.Sprintf(verb, s))...)
					continue
				}
				out = append(out, in.newOpaque(verb, sv))
				continue
			}
			fallthrough
		default:
			if s, ok := in.renderScalar(verb, t, v); ok {
				out = append(out, in.litAtoms(s)...)
				continue
			}
			if ft, ok := v.(*Term); ok && ft.sort == SFloat && in.cfg.RenderMax > 0 && vc == 'f' && width < 0 {
				out = append(out, in.renderBytes(verb, ft)...)
				continue
			}
			out = append(out, in.newOpaque(verb, v))
		}
	}
	if argi < len(args) {
		out = append(out, in.litAtoms("%!(EXTRA)")...)
	}
	return normStr(&Rope{atoms: out})
}

// sprint implements Sprint/Sprintln operand formatting.
func (in *Interp) sprint(fr *frame, args []value, ln bool) value {
	var out []Atom
	prevString := false
	for i, a := range args {
		sv, isStr := in.stringish(fr, a)
		_, rawV := unwrapIface(a)
		_, rawIsString := rawV.(string)
		if _, r := rawV.(*Rope); r {
			rawIsString = true
		}
		if i > 0 && (ln || (!rawIsString && !prevString)) {
			out = append(out, in.litAtoms(" ")...)
		}
		if isStr {
			out = append(out, in.ropeOf(sv).atoms...)
		} else {
			t, v := unwrapIface(a)
			if s, ok := in.renderScalar("%v", t, v); ok {
				out = append(out, in.litAtoms(s)...)
			} else {
				out = append(out, in.newOpaque("%v", v))
			}
		}
		prevString = rawIsString
	}
	if ln {
		out = append(out, in.litAtoms("\n")...)
	}
	return normStr(&Rope{atoms: out})
}

func sliceArgs(v value) []value {
	if v == nil {
		return nil
	}
	return v.([]value)
}

// writeTo performs w.Write(rope) for an io.Writer value and returns (n, err).
func (in *Interp) writeTo(fr *frame, w value, data value) value {
	itf, ok := w.(iface)
	if !ok {
		in.checkOpaque(w)
		panic(fmt.Sprintf("writeTo: %T", w))
	}
	if itf.t == nil {
		panic(targetPanic{msg: "runtime error: invalid memory address or nil pointer dereference (Write on nil io.Writer)"})
	}
	if o, ok := itf.v.(opaqueV); ok {
		panic(unsupported{"write to opaque writer (" + o.why + ")"})
	}
	// bufio.Writer stub
	if p, ok := itf.v.(*value); ok {
		if st, ok := in.path.side[p].(*bufState); ok {
			return in.bufWrite(fr, st, data)
		}
	}
	if m := in.anyMethod(itf.t, "WriteString"); m != nil {
		return in.call(fr, 0, m, []value{itf.v, data})
	}
	m := in.anyMethod(itf.t, "Write")
	if m == nil {
		panic(fmt.Sprintf("writeTo: %v has no Write", itf.t))
	}
	return in.call(fr, 0, m, []value{itf.v, in.conv(types.NewSlice(types.Typ[types.Byte]), types.Typ[types.String], data)})
}

func init() {
	externals["fmt.Sprintf"] = func(in *Interp, fr *frame, args []value) value {
		return in.formatV(fr, args[0], sliceArgs(args[1]))
	}
	externals["fmt.Errorf"] = func(in *Interp, fr *frame, args []value) value {
		return in.newError(in.formatV(fr, args[0], sliceArgs(args[1])))
	}
	externals["errors.New"] = func(in *Interp, fr *frame, args []value) value {
		return in.newError(args[0])
	}
	externals["fmt.Sprint"] = func(in *Interp, fr *frame, args []value) value {
		return in.sprint(fr, sliceArgs(args[0]), false)
	}
	externals["fmt.Sprintln"] = func(in *Interp, fr *frame, args []value) value {
		return in.sprint(fr, sliceArgs(args[0]), true)
	}
	externals["fmt.Fprintf"] = func(in *Interp, fr *frame, args []value) value {
		return in.writeTo(fr, args[0], in.formatV(fr, args[1], sliceArgs(args[2])))
	}
	externals["fmt.Fprint"] = func(in *Interp, fr *frame, args []value) value {
		return in.writeTo(fr, args[0], in.sprint(fr, sliceArgs(args[1]), false))
	}
	externals["fmt.Fprintln"] = func(in *Interp, fr *frame, args []value) value {
		return in.writeTo(fr, args[0], in.sprint(fr, sliceArgs(args[1]), true))
	}
}
