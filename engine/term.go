package main

// Hash-consed SMT term DAG. One TermTab per worker (no locking).
//
// Every scalar Go value in the executor (bool, intN, uintN, float64) is a *Term;
// concrete execution is constant folding in the constructors below.

import (
	"fmt"
	"math"
	"math/big"
	"math/bits"
	"strings"
)

type Sort uint8

const (
	SBool Sort = iota
	SBV8
	SBV16
	SBV32
	SBV64
	SFloat // Real or (_ FloatingPoint 11 53), chosen per run (FloatReal)
)

// FloatReal selects the encoding of float64 for the whole run.
var FloatReal = true

func (s Sort) Width() int {
	switch s {
	case SBV8:
		return 8
	case SBV16:
		return 16
	case SBV32:
		return 32
	case SBV64:
		return 64
	}
	panic("Width of non-bv sort")
}

func BVSort(w int) Sort {
	switch w {
	case 8:
		return SBV8
	case 16:
		return SBV16
	case 32:
		return SBV32
	case 64:
		return SBV64
	}
	panic(fmt.Sprintf("no bv sort of width %d", w))
}

func (s Sort) IsBV() bool { return s >= SBV8 && s <= SBV64 }

func (s Sort) SMT() string {
	switch s {
	case SBool:
		return "Bool"
	case SBV8, SBV16, SBV32, SBV64:
		return fmt.Sprintf("(_ BitVec %d)", s.Width())
	case SFloat:
		if FloatReal {
			return "Real"
		}
		return "(_ FloatingPoint 11 53)"
	}
	panic("bad sort")
}

type Op uint8

const (
	OpConst Op = iota
	OpVar
	OpUF
	OpNot
	OpAnd
	OpOr
	OpEq // SMT "=" on any sort
	OpIte
	OpBVAdd
	OpBVSub
	OpBVMul
	OpBVUDiv
	OpBVSDiv
	OpBVURem
	OpBVSRem
	OpBVAnd
	OpBVOr
	OpBVXor
	OpBVNot
	OpBVNeg
	OpBVShl
	OpBVLShr
	OpBVAShr
	OpBVULt
	OpBVULe
	OpBVSLt
	OpBVSLe
	OpZExt // to t.sort
	OpSExt
	OpTrunc // low bits, to t.sort
	OpFAdd
	OpFSub
	OpFMul
	OpFDiv
	OpFNeg
	OpFLt
	OpFLe
	OpFEq  // IEEE ==
	OpSI2F // signed bv -> float
	OpUI2F // unsigned bv -> float
	OpF2SI // float -> signed bv (truncate toward zero), to t.sort
	OpFIsNaN
	OpFIsNeg // sign bit set (fp.isNegative); in real mode x < 0
	OpFFloor // round to integral toward -inf
	OpFCeil  // round to integral toward +inf
	OpFRound // round to integral, ties away from zero (math.Round)
)

type Term struct {
	op   Op
	sort Sort
	id   uint32
	args []*Term
	val  uint64   // const payload: bool (0/1), bv bits, float64 bits (FP mode)
	rat  *big.Rat // const payload for SFloat in Real mode
	name string   // var / UF name
}

func (t *Term) IsConst() bool { return t.op == OpConst }

type termKey struct {
	op      Op
	sort    Sort
	a, b, c uint32
	val     uint64
	name    string
}

type TermTab struct {
	m     map[termKey]*Term
	next  uint32
	True  *Term
	False *Term
	ufs   map[string]*UFDecl
}

type UFDecl struct {
	name string
	args []Sort
	res  Sort
}

func NewTermTab() *TermTab {
	tb := &TermTab{m: make(map[termKey]*Term, 1<<12), ufs: map[string]*UFDecl{}}
	tb.True = tb.Bool(true)
	tb.False = tb.Bool(false)
	return tb
}

func (tb *TermTab) Size() int { return len(tb.m) }

func (tb *TermTab) intern(k termKey, mk func() *Term) *Term {
	if t, ok := tb.m[k]; ok {
		return t
	}
	t := mk()
	tb.next++
	t.id = tb.next
	tb.m[k] = t
	return t
}

func (tb *TermTab) mk(op Op, sort Sort, args ...*Term) *Term {
	k := termKey{op: op, sort: sort}
	switch len(args) {
	case 3:
		k.c = args[2].id
		fallthrough
	case 2:
		k.b = args[1].id
		fallthrough
	case 1:
		k.a = args[0].id
	case 0:
	default:
		panic("mk: too many args")
	}
	return tb.intern(k, func() *Term { return &Term{op: op, sort: sort, args: args} })
}

// ---- constants

func (tb *TermTab) Bool(b bool) *Term {
	v := uint64(0)
	if b {
		v = 1
	}
	return tb.intern(termKey{op: OpConst, sort: SBool, val: v}, func() *Term { return &Term{op: OpConst, sort: SBool, val: v} })
}

func maskW(w int) uint64 {
	if w == 64 {
		return ^uint64(0)
	}
	return (uint64(1) << uint(w)) - 1
}

func (tb *TermTab) BV(s Sort, v uint64) *Term {
	v &= maskW(s.Width())
	return tb.intern(termKey{op: OpConst, sort: s, val: v}, func() *Term { return &Term{op: OpConst, sort: s, val: v} })
}

func (tb *TermTab) Float(f float64) *Term {
	if FloatReal {
		if math.IsNaN(f) || math.IsInf(f, 0) {
			panic(unsupported{"NaN/Inf constant in real mode"})
		}
		r := new(big.Rat)
		r.SetFloat64(f)
		return tb.Rat(r)
	}
	v := math.Float64bits(f)
	return tb.intern(termKey{op: OpConst, sort: SFloat, val: v}, func() *Term { return &Term{op: OpConst, sort: SFloat, val: v} })
}

func (tb *TermTab) Rat(r *big.Rat) *Term {
	if !FloatReal {
		f, _ := r.Float64()
		return tb.Float(f)
	}
	return tb.intern(termKey{op: OpConst, sort: SFloat, name: r.RatString()}, func() *Term { return &Term{op: OpConst, sort: SFloat, rat: r} })
}

func (t *Term) BoolVal() bool { return t.val != 0 }

// SVal returns the constant as a sign-extended int64.
func (t *Term) SVal() int64 {
	w := t.sort.Width()
	return int64(t.val<<uint(64-w)) >> uint(64-w)
}
func (t *Term) UVal() uint64     { return t.val }
func (t *Term) F64() float64     { return math.Float64frombits(t.val) }
func (t *Term) RatVal() *big.Rat { return t.rat }

// FloatConstF64 returns the float64 nearest to a constant float term.
func (t *Term) FloatConstF64() float64 {
	if FloatReal {
		f, _ := t.rat.Float64()
		return f
	}
	return t.F64()
}

// ---- variables and UFs

func (tb *TermTab) Var(name string, s Sort) *Term {
	return tb.intern(termKey{op: OpVar, sort: s, name: name}, func() *Term { return &Term{op: OpVar, sort: s, name: name} })
}

func (tb *TermTab) UF(name string, res Sort, args ...*Term) *Term {
	if _, ok := tb.ufs[name]; !ok {
		d := &UFDecl{name: name, res: res}
		for _, a := range args {
			d.args = append(d.args, a.sort)
		}
		tb.ufs[name] = d
	}
	var sb strings.Builder
	sb.WriteString(name)
	for _, a := range args {
		fmt.Fprintf(&sb, ",%d", a.id)
	}
	cp := append([]*Term(nil), args...)
	return tb.intern(termKey{op: OpUF, sort: res, name: sb.String()}, func() *Term { return &Term{op: OpUF, sort: res, args: cp, name: name} })
}

// ---- boolean

func (tb *TermTab) Not(a *Term) *Term {
	if a.IsConst() {
		return tb.Bool(!a.BoolVal())
	}
	if a.op == OpNot {
		return a.args[0]
	}
	return tb.mk(OpNot, SBool, a)
}

func (tb *TermTab) And(a, b *Term) *Term {
	if a.IsConst() {
		if a.BoolVal() {
			return b
		}
		return tb.False
	}
	if b.IsConst() {
		if b.BoolVal() {
			return a
		}
		return tb.False
	}
	if a == b {
		return a
	}
	if a.id > b.id {
		a, b = b, a
	}
	return tb.mk(OpAnd, SBool, a, b)
}

func (tb *TermTab) Or(a, b *Term) *Term {
	if a.IsConst() {
		if a.BoolVal() {
			return tb.True
		}
		return b
	}
	if b.IsConst() {
		if b.BoolVal() {
			return tb.True
		}
		return a
	}
	if a == b {
		return a
	}
	if a.id > b.id {
		a, b = b, a
	}
	return tb.mk(OpOr, SBool, a, b)
}

func (tb *TermTab) Eq(a, b *Term) *Term {
	if a.sort != b.sort {
		panic(fmt.Sprintf("Eq: sort mismatch %v %v", a.sort, b.sort))
	}
	if a == b {
		return tb.True
	}
	if a.IsConst() && b.IsConst() {
		// distinct hash-consed constants of the same sort are different values,
		// except FP NaNs with different payloads (SMT has one NaN)
		if a.sort == SFloat && !FloatReal && math.IsNaN(a.F64()) && math.IsNaN(b.F64()) {
			return tb.True
		}
		return tb.False
	}
	if a.sort == SBool {
		if a.IsConst() {
			if a.BoolVal() {
				return b
			}
			return tb.Not(b)
		}
		if b.IsConst() {
			if b.BoolVal() {
				return a
			}
			return tb.Not(a)
		}
	}
	if a.id > b.id {
		a, b = b, a
	}
	return tb.mk(OpEq, SBool, a, b)
}

func (tb *TermTab) Ite(c, a, b *Term) *Term {
	if c.IsConst() {
		if c.BoolVal() {
			return a
		}
		return b
	}
	if a == b {
		return a
	}
	if a.sort == SBool && a.IsConst() && b.IsConst() {
		if a.BoolVal() {
			return c
		}
		return tb.Not(c)
	}
	return tb.mk(OpIte, a.sort, c, a, b)
}

// ---- bit-vectors

func sx(v uint64, w int) int64 { return int64(v<<uint(64-w)) >> uint(64-w) }

func (tb *TermTab) bvBin(op Op, a, b *Term) *Term {
	if a.sort != b.sort {
		panic(fmt.Sprintf("bvBin %d: sort mismatch %v %v", op, a.sort, b.sort))
	}
	s := a.sort
	w := s.Width()
	if a.IsConst() && b.IsConst() {
		x, y := a.val, b.val
		var r uint64
		switch op {
		case OpBVAdd:
			r = x + y
		case OpBVSub:
			r = x - y
		case OpBVMul:
			r = x * y
		case OpBVUDiv:
			if y == 0 {
				r = maskW(w)
			} else {
				r = x / y
			}
		case OpBVURem:
			if y == 0 {
				r = x
			} else {
				r = x % y
			}
		case OpBVSDiv:
			sxv, syv := sx(x, w), sx(y, w)
			if syv == 0 {
				if sxv >= 0 {
					r = maskW(w)
				} else {
					r = 1
				}
			} else if syv == -1 {
				r = uint64(-sxv)
			} else {
				r = uint64(sxv / syv)
			}
		case OpBVSRem:
			sxv, syv := sx(x, w), sx(y, w)
			if syv == 0 {
				r = x
			} else if syv == -1 {
				r = 0
			} else {
				r = uint64(sxv % syv)
			}
		case OpBVAnd:
			r = x & y
		case OpBVOr:
			r = x | y
		case OpBVXor:
			r = x ^ y
		case OpBVShl:
			if y >= uint64(w) {
				r = 0
			} else {
				r = x << y
			}
		case OpBVLShr:
			if y >= uint64(w) {
				r = 0
			} else {
				r = x >> y
			}
		case OpBVAShr:
			if y >= uint64(w) {
				y = uint64(w - 1)
			}
			r = uint64(sx(x, w) >> y)
		default:
			panic("bvBin const")
		}
		return tb.BV(s, r)
	}
	switch op {
	case OpBVAdd:
		if a.IsConst() && a.val == 0 {
			return b
		}
		if b.IsConst() && b.val == 0 {
			return a
		}
	case OpBVSub:
		if b.IsConst() && b.val == 0 {
			return a
		}
		if a == b {
			return tb.BV(s, 0)
		}
	case OpBVMul:
		if a.IsConst() && a.val == 1 {
			return b
		}
		if b.IsConst() && b.val == 1 {
			return a
		}
		if (a.IsConst() && a.val == 0) || (b.IsConst() && b.val == 0) {
			return tb.BV(s, 0)
		}
	case OpBVAnd:
		if (a.IsConst() && a.val == 0) || (b.IsConst() && b.val == 0) {
			return tb.BV(s, 0)
		}
		if a.IsConst() && a.val == maskW(w) {
			return b
		}
		if b.IsConst() && b.val == maskW(w) {
			return a
		}
		if a == b {
			return a
		}
	case OpBVOr:
		if a.IsConst() && a.val == 0 {
			return b
		}
		if b.IsConst() && b.val == 0 {
			return a
		}
		if a == b {
			return a
		}
	case OpBVXor:
		if a.IsConst() && a.val == 0 {
			return b
		}
		if b.IsConst() && b.val == 0 {
			return a
		}
		if a == b {
			return tb.BV(s, 0)
		}
	case OpBVShl, OpBVLShr, OpBVAShr:
		if b.IsConst() && b.val == 0 {
			return a
		}
	}
	switch op {
	case OpBVAdd, OpBVMul, OpBVAnd, OpBVOr, OpBVXor:
		if a.id > b.id {
			a, b = b, a
		}
	}
	return tb.mk(op, s, a, b)
}

func (tb *TermTab) BVAdd(a, b *Term) *Term  { return tb.bvBin(OpBVAdd, a, b) }
func (tb *TermTab) BVSub(a, b *Term) *Term  { return tb.bvBin(OpBVSub, a, b) }
func (tb *TermTab) BVMul(a, b *Term) *Term  { return tb.bvBin(OpBVMul, a, b) }
func (tb *TermTab) BVUDiv(a, b *Term) *Term { return tb.bvBin(OpBVUDiv, a, b) }
func (tb *TermTab) BVSDiv(a, b *Term) *Term { return tb.bvBin(OpBVSDiv, a, b) }
func (tb *TermTab) BVURem(a, b *Term) *Term { return tb.bvBin(OpBVURem, a, b) }
func (tb *TermTab) BVSRem(a, b *Term) *Term { return tb.bvBin(OpBVSRem, a, b) }
func (tb *TermTab) BVAnd(a, b *Term) *Term  { return tb.bvBin(OpBVAnd, a, b) }
func (tb *TermTab) BVOr(a, b *Term) *Term   { return tb.bvBin(OpBVOr, a, b) }
func (tb *TermTab) BVXor(a, b *Term) *Term  { return tb.bvBin(OpBVXor, a, b) }
func (tb *TermTab) BVShl(a, b *Term) *Term  { return tb.bvBin(OpBVShl, a, b) }
func (tb *TermTab) BVLShr(a, b *Term) *Term { return tb.bvBin(OpBVLShr, a, b) }
func (tb *TermTab) BVAShr(a, b *Term) *Term { return tb.bvBin(OpBVAShr, a, b) }

func (tb *TermTab) BVNot(a *Term) *Term {
	if a.IsConst() {
		return tb.BV(a.sort, ^a.val)
	}
	return tb.mk(OpBVNot, a.sort, a)
}

func (tb *TermTab) BVNeg(a *Term) *Term {
	if a.IsConst() {
		return tb.BV(a.sort, -a.val)
	}
	return tb.mk(OpBVNeg, a.sort, a)
}

func (tb *TermTab) bvCmp(op Op, a, b *Term) *Term {
	if a.sort != b.sort {
		panic(fmt.Sprintf("bvCmp: sort mismatch %v %v", a.sort, b.sort))
	}
	w := a.sort.Width()
	if a.IsConst() && b.IsConst() {
		switch op {
		case OpBVULt:
			return tb.Bool(a.val < b.val)
		case OpBVULe:
			return tb.Bool(a.val <= b.val)
		case OpBVSLt:
			return tb.Bool(sx(a.val, w) < sx(b.val, w))
		case OpBVSLe:
			return tb.Bool(sx(a.val, w) <= sx(b.val, w))
		}
	}
	if a == b {
		return tb.Bool(op == OpBVULe || op == OpBVSLe)
	}
	// x <u 0 is false; 0 <=u x is true
	if op == OpBVULt && b.IsConst() && b.val == 0 {
		return tb.False
	}
	if op == OpBVULe && a.IsConst() && a.val == 0 {
		return tb.True
	}
	return tb.mk(op, SBool, a, b)
}

func (tb *TermTab) BVULt(a, b *Term) *Term { return tb.bvCmp(OpBVULt, a, b) }
func (tb *TermTab) BVULe(a, b *Term) *Term { return tb.bvCmp(OpBVULe, a, b) }
func (tb *TermTab) BVSLt(a, b *Term) *Term { return tb.bvCmp(OpBVSLt, a, b) }
func (tb *TermTab) BVSLe(a, b *Term) *Term { return tb.bvCmp(OpBVSLe, a, b) }

// BVConv converts a bit-vector to sort dst, sign- or zero-extending per srcSigned.
func (tb *TermTab) BVConv(a *Term, dst Sort, srcSigned bool) *Term {
	if a.sort == dst {
		return a
	}
	sw, dw := a.sort.Width(), dst.Width()
	if a.IsConst() {
		if dw < sw {
			return tb.BV(dst, a.val)
		}
		if srcSigned {
			return tb.BV(dst, uint64(sx(a.val, sw)))
		}
		return tb.BV(dst, a.val)
	}
	if dw < sw {
		// trunc(ext(x)) where x already has the target sort
		if (a.op == OpZExt || a.op == OpSExt) && a.args[0].sort == dst {
			return a.args[0]
		}
		return tb.mk(OpTrunc, dst, a)
	}
	if srcSigned {
		return tb.mk(OpSExt, dst, a)
	}
	return tb.mk(OpZExt, dst, a)
}

// ---- floats

func (tb *TermTab) fBin(op Op, a, b *Term) *Term {
	if a.IsConst() && b.IsConst() {
		if FloatReal {
			r := new(big.Rat)
			switch op {
			case OpFAdd:
				r.Add(a.rat, b.rat)
			case OpFSub:
				r.Sub(a.rat, b.rat)
			case OpFMul:
				r.Mul(a.rat, b.rat)
			case OpFDiv:
				if b.rat.Sign() == 0 {
					panic(unsupported{"real-mode division by constant zero"})
				}
				r.Quo(a.rat, b.rat)
			}
			return tb.Rat(r)
		}
		x, y := a.F64(), b.F64()
		var r float64
		switch op {
		case OpFAdd:
			r = x + y
		case OpFSub:
			r = x - y
		case OpFMul:
			r = x * y
		case OpFDiv:
			r = x / y
		}
		return tb.Float(r)
	}
	if FloatReal {
		isc := func(t *Term, n int64) bool {
			return t.IsConst() && t.rat.IsInt() && t.rat.Num().IsInt64() && t.rat.Num().Int64() == n
		}
		switch op {
		case OpFAdd:
			if isc(a, 0) {
				return b
			}
			if isc(b, 0) {
				return a
			}
		case OpFSub:
			if isc(b, 0) {
				return a
			}
		case OpFMul:
			if isc(a, 1) {
				return b
			}
			if isc(b, 1) {
				return a
			}
			if isc(a, 0) || isc(b, 0) {
				return tb.Float(0)
			}
		case OpFDiv:
			if isc(b, 1) {
				return a
			}
		}
	} else {
		// x*1 = x and x/1 = x are IEEE identities (NaN payloads aside; SMT has one NaN)
		one := func(t *Term) bool { return t.IsConst() && t.F64() == 1 }
		if op == OpFMul && one(a) {
			return b
		}
		if (op == OpFMul || op == OpFDiv) && one(b) {
			return a
		}
	}
	if op == OpFAdd || op == OpFMul {
		if a.id > b.id {
			a, b = b, a
		}
	}
	return tb.mk(op, SFloat, a, b)
}

func (tb *TermTab) FAdd(a, b *Term) *Term { return tb.fBin(OpFAdd, a, b) }
func (tb *TermTab) FSub(a, b *Term) *Term { return tb.fBin(OpFSub, a, b) }
func (tb *TermTab) FMul(a, b *Term) *Term { return tb.fBin(OpFMul, a, b) }
func (tb *TermTab) FDiv(a, b *Term) *Term { return tb.fBin(OpFDiv, a, b) }

func (tb *TermTab) FNeg(a *Term) *Term {
	if a.IsConst() {
		if FloatReal {
			return tb.Rat(new(big.Rat).Neg(a.rat))
		}
		return tb.Float(-a.F64())
	}
	if a.op == OpFNeg {
		return a.args[0]
	}
	return tb.mk(OpFNeg, SFloat, a)
}

// FRoundOp builds floor/ceil/round-half-away of a float term.
func (tb *TermTab) FRoundOp(op Op, a *Term) *Term {
	if a.IsConst() {
		var f func(float64) float64
		switch op {
		case OpFFloor:
			f = math.Floor
		case OpFCeil:
			f = math.Ceil
		default:
			f = math.Round
		}
		if FloatReal {
			// exact on rationals
			num, den := new(big.Int).Set(a.rat.Num()), a.rat.Denom()
			q, m := new(big.Int).DivMod(num, den, new(big.Int)) // floor division (den > 0)
			switch op {
			case OpFCeil:
				if m.Sign() != 0 {
					q.Add(q, big.NewInt(1))
				}
			case OpFRound:
				twice := new(big.Int).Lsh(m, 1)
				c := twice.Cmp(den)
				if c > 0 || (c == 0 && a.rat.Sign() >= 0) {
					q.Add(q, big.NewInt(1))
				}
			}
			return tb.Rat(new(big.Rat).SetInt(q))
		}
		return tb.Float(f(a.F64()))
	}
	return tb.mk(op, SFloat, a)
}

func (tb *TermTab) fCmp(op Op, a, b *Term) *Term {
	if a.IsConst() && b.IsConst() {
		if FloatReal {
			c := a.rat.Cmp(b.rat)
			switch op {
			case OpFLt:
				return tb.Bool(c < 0)
			case OpFLe:
				return tb.Bool(c <= 0)
			case OpFEq:
				return tb.Bool(c == 0)
			}
		}
		x, y := a.F64(), b.F64()
		switch op {
		case OpFLt:
			return tb.Bool(x < y)
		case OpFLe:
			return tb.Bool(x <= y)
		case OpFEq:
			return tb.Bool(x == y)
		}
	}
	if FloatReal && a == b {
		return tb.Bool(op != OpFLt)
	}
	if op == OpFEq && a.id > b.id {
		a, b = b, a
	}
	return tb.mk(op, SBool, a, b)
}

func (tb *TermTab) FLt(a, b *Term) *Term { return tb.fCmp(OpFLt, a, b) }
func (tb *TermTab) FLe(a, b *Term) *Term { return tb.fCmp(OpFLe, a, b) }
func (tb *TermTab) FEq(a, b *Term) *Term { return tb.fCmp(OpFEq, a, b) }

func (tb *TermTab) FIsNaN(a *Term) *Term {
	if FloatReal {
		return tb.False
	}
	if a.IsConst() {
		return tb.Bool(math.IsNaN(a.F64()))
	}
	return tb.mk(OpFIsNaN, SBool, a)
}

// FIsNeg is math.Signbit: true for negative values and -0 (never for NaN in the SMT theory).
func (tb *TermTab) FIsNeg(a *Term) *Term {
	if FloatReal {
		return tb.FLt(a, tb.Float(0))
	}
	if a.IsConst() {
		return tb.Bool(math.Signbit(a.F64()))
	}
	return tb.mk(OpFIsNeg, SBool, a)
}

func (tb *TermTab) IntToFloat(a *Term, signed bool) *Term {
	if a.IsConst() {
		if signed {
			return tb.Float(float64(a.SVal()))
		}
		return tb.Float(float64(a.UVal()))
	}
	if signed {
		return tb.mk(OpSI2F, SFloat, a)
	}
	return tb.mk(OpUI2F, SFloat, a)
}

func (tb *TermTab) FloatToInt(a *Term, dst Sort) *Term {
	if a.IsConst() {
		f := a.FloatConstF64()
		return tb.BV(dst, uint64(int64(f)))
	}
	return tb.mk(OpF2SI, dst, a)
}

// ---- printing

func bvLit(v uint64, w int) string {
	return fmt.Sprintf("#x%0*x", w/4, v)
}

func ratLit(r *big.Rat) string {
	neg := r.Sign() < 0
	a := new(big.Rat).Abs(r)
	var s string
	if a.IsInt() {
		s = a.Num().String() + ".0"
	} else {
		s = "(/ " + a.Num().String() + ".0 " + a.Denom().String() + ".0)"
	}
	if neg {
		return "(- " + s + ")"
	}
	return s
}

// Ref is how a term is referred to inside other terms: literals and variables by
// themselves, everything else by its definition name.
func (t *Term) Ref() string {
	switch t.op {
	case OpConst:
		switch t.sort {
		case SBool:
			if t.val != 0 {
				return "true"
			}
			return "false"
		case SFloat:
			if FloatReal {
				return ratLit(t.rat)
			}
			f := t.F64()
			switch {
			case math.IsNaN(f):
				return "(_ NaN 11 53)"
			}
			return fmt.Sprintf("((_ to_fp 11 53) #x%016x)", t.val)
		default:
			return bvLit(t.val, t.sort.Width())
		}
	case OpVar:
		return t.name
	}
	return fmt.Sprintf("t%d", t.id)
}

var smtOpName = map[Op]string{
	OpNot: "not", OpAnd: "and", OpOr: "or", OpEq: "=", OpIte: "ite",
	OpBVAdd: "bvadd", OpBVSub: "bvsub", OpBVMul: "bvmul", OpBVUDiv: "bvudiv", OpBVSDiv: "bvsdiv",
	OpBVURem: "bvurem", OpBVSRem: "bvsrem", OpBVAnd: "bvand", OpBVOr: "bvor", OpBVXor: "bvxor",
	OpBVNot: "bvnot", OpBVNeg: "bvneg", OpBVShl: "bvshl", OpBVLShr: "bvlshr", OpBVAShr: "bvashr",
	OpBVULt: "bvult", OpBVULe: "bvule", OpBVSLt: "bvslt", OpBVSLe: "bvsle",
}

// Body is the defining expression of a non-leaf term, children by Ref.
func (t *Term) Body() string {
	r := func(i int) string { return t.args[i].Ref() }
	switch t.op {
	case OpUF:
		if len(t.args) == 0 {
			return t.name
		}
		var sb strings.Builder
		sb.WriteString("(" + strings.TrimPrefix(t.name, "smt:"))
		for i := range t.args {
			sb.WriteString(" " + r(i))
		}
		sb.WriteString(")")
		return sb.String()
	case OpZExt:
		return fmt.Sprintf("((_ zero_extend %d) %s)", t.sort.Width()-t.args[0].sort.Width(), r(0))
	case OpSExt:
		return fmt.Sprintf("((_ sign_extend %d) %s)", t.sort.Width()-t.args[0].sort.Width(), r(0))
	case OpTrunc:
		return fmt.Sprintf("((_ extract %d 0) %s)", t.sort.Width()-1, r(0))
	case OpFAdd, OpFSub, OpFMul, OpFDiv:
		if FloatReal {
			n := map[Op]string{OpFAdd: "+", OpFSub: "-", OpFMul: "*", OpFDiv: "/"}[t.op]
			return fmt.Sprintf("(%s %s %s)", n, r(0), r(1))
		}
		n := map[Op]string{OpFAdd: "fp.add", OpFSub: "fp.sub", OpFMul: "fp.mul", OpFDiv: "fp.div"}[t.op]
		return fmt.Sprintf("(%s RNE %s %s)", n, r(0), r(1))
	case OpFNeg:
		if FloatReal {
			return fmt.Sprintf("(- %s)", r(0))
		}
		return fmt.Sprintf("(fp.neg %s)", r(0))
	case OpFLt, OpFLe, OpFEq:
		var n string
		if FloatReal {
			n = map[Op]string{OpFLt: "<", OpFLe: "<=", OpFEq: "="}[t.op]
		} else {
			n = map[Op]string{OpFLt: "fp.lt", OpFLe: "fp.leq", OpFEq: "fp.eq"}[t.op]
		}
		return fmt.Sprintf("(%s %s %s)", n, r(0), r(1))
	case OpFFloor, OpFCeil, OpFRound:
		if FloatReal {
			switch t.op {
			case OpFFloor:
				return fmt.Sprintf("(to_real (to_int %s))", r(0))
			case OpFCeil:
				return fmt.Sprintf("(- (to_real (to_int (- %s))))", r(0))
			default: // ties away from zero
				return fmt.Sprintf("(ite (>= %s 0.0) (to_real (to_int (+ %s 0.5))) (- (to_real (to_int (+ (- %s) 0.5)))))", r(0), r(0), r(0))
			}
		}
		return fmt.Sprintf("(fp.roundToIntegral %s %s)", map[Op]string{OpFFloor: "RTN", OpFCeil: "RTP", OpFRound: "RNA"}[t.op], r(0))
	case OpFIsNaN:
		return fmt.Sprintf("(fp.isNaN %s)", r(0))
	case OpFIsNeg:
		return fmt.Sprintf("(fp.isNegative %s)", r(0))
	case OpSI2F:
		if FloatReal {
			// bv -> int -> real, signed
			w := t.args[0].sort.Width()
			return fmt.Sprintf("(to_real (let ((u (bv2nat %s))) (ite (>= u %s) (- u %s) u)))", r(0),
				new(big.Int).Lsh(big.NewInt(1), uint(w-1)).String(), new(big.Int).Lsh(big.NewInt(1), uint(w)).String())
		}
		return fmt.Sprintf("((_ to_fp 11 53) RNE %s)", r(0))
	case OpUI2F:
		if FloatReal {
			return fmt.Sprintf("(to_real (bv2nat %s))", r(0))
		}
		return fmt.Sprintf("((_ to_fp_unsigned 11 53) RNE %s)", r(0))
	case OpF2SI:
		if FloatReal {
			panic(unsupported{"float->int conversion in real mode"})
		}
		return fmt.Sprintf("((_ fp.to_sbv %d) RTZ %s)", t.sort.Width(), r(0))
	}
	n, ok := smtOpName[t.op]
	if !ok {
		panic(fmt.Sprintf("Body: op %d", t.op))
	}
	var sb strings.Builder
	sb.WriteString("(" + n)
	for i := range t.args {
		sb.WriteString(" " + r(i))
	}
	sb.WriteString(")")
	return sb.String()
}

// Pretty prints a term as a nested expression (debugging, evidence samples).
func (t *Term) Pretty(depth int) string {
	if t.op == OpConst || t.op == OpVar {
		if t.op == OpConst && t.sort.IsBV() {
			return fmt.Sprintf("%d", t.SVal())
		}
		if t.op == OpConst && t.sort == SFloat {
			return fmt.Sprintf("%g", t.FloatConstF64())
		}
		return t.Ref()
	}
	if depth <= 0 {
		return t.Ref()
	}
	var sb strings.Builder
	n := smtOpName[t.op]
	if n == "" {
		n = fmt.Sprintf("op%d", t.op)
		if t.op == OpUF {
			n = t.name
		}
	}
	sb.WriteString("(" + n)
	for _, a := range t.args {
		sb.WriteString(" " + a.Pretty(depth-1))
	}
	sb.WriteString(")")
	return sb.String()
}

var _ = bits.Len
