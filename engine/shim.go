package main

// Engine side of the package-private verif* functions that harnesses call.

import (
	"fmt"
	"go/types"
	"math"
	"regexp"
	"strings"

	"golang.org/x/tools/go/ssa"
)

type extFn func(in *Interp, fr *frame, args []value) value

var externals = map[string]extFn{}

var shims = map[string]extFn{}

func (in *Interp) lookupExternal(fn *ssa.Function) extFn {
	name := fn.Name()
	if strings.HasPrefix(name, "verif") && fn.Signature.Recv() == nil {
		if s, ok := shims[name]; ok {
			return s
		}
	}
	if e, ok := externals[fn.String()]; ok {
		in.stubsUsed[fn.String()]++
		return e
	}
	if o := fn.Origin(); o != nil {
		if e, ok := externals[o.String()]; ok {
			in.stubsUsed[o.String()]++
			return e
		}
	}
	return nil
}

var tagRe = regexp.MustCompile(`[^A-Za-z0-9_.\-]`)

func (in *Interp) concStr(v value, what string) string {
	s, ok := v.(string)
	if !ok {
		panic(unsupported{what + " must be a concrete string"})
	}
	return s
}

func (in *Interp) newInput(tag, kind string, sort Sort) *Term {
	p := in.path
	tag = tagRe.ReplaceAllString(tag, "_")
	k := p.tagCount[kind+"!"+tag]
	p.tagCount[kind+"!"+tag] = k + 1
	name := fmt.Sprintf("|%s!%s!%d|", kind, tag, k)
	t := in.tb.Var(name, sort)
	p.inputs = append(p.inputs, &InputVar{Tag: tag, K: k, Kind: kind, T: t})
	return t
}

func init() {
	shims["verifEngine"] = func(in *Interp, fr *frame, args []value) value { return in.tb.True }
	shims["verifChoose"] = func(in *Interp, fr *frame, args []value) value {
		tag := in.concStr(args[0], "verifChoose tag")
		n := in.toInt(args[1], "verifChoose n")
		in.path.chooseN++
		return in.intConst(int64(in.choose(n, tag)))
	}
	shims["verifFloat"] = func(in *Interp, fr *frame, args []value) value {
		return in.newInput(in.concStr(args[0], "tag"), "float", SFloat)
	}
	shims["verifInt"] = func(in *Interp, fr *frame, args []value) value {
		t := in.newInput(in.concStr(args[0], "tag"), "int", SBV64)
		lo, hi := args[1].(*Term), args[2].(*Term)
		in.assume(in.tb.BVSLe(lo, t))
		in.assume(in.tb.BVSLe(t, hi))
		return t
	}
	shims["verifByte"] = func(in *Interp, fr *frame, args []value) value {
		return in.newInput(in.concStr(args[0], "tag"), "byte", SBV8)
	}
	shims["verifBool"] = func(in *Interp, fr *frame, args []value) value {
		return in.newInput(in.concStr(args[0], "tag"), "bool", SBool)
	}
	shims["verifBytes"] = func(in *Interp, fr *frame, args []value) value {
		tag := in.concStr(args[0], "tag")
		n := in.toInt(args[1], "verifBytes n")
		r := &Rope{atoms: make([]Atom, n)}
		for i := 0; i < n; i++ {
			r.atoms[i].t = in.newInput(tag, "byte", SBV8)
		}
		return normStr(r)
	}
	shims["verifByteIn"] = func(in *Interp, fr *frame, args []value) value {
		c := args[0].(*Term)
		rs := in.concStr(args[1], "ranges")
		res := in.tb.False
		for i := 0; i+1 < len(rs); i += 2 {
			lo, hi := in.tb.BV(SBV8, uint64(rs[i])), in.tb.BV(SBV8, uint64(rs[i+1]))
			if rs[i] == rs[i+1] {
				res = in.tb.Or(res, in.tb.Eq(c, lo))
			} else {
				res = in.tb.Or(res, in.tb.And(in.tb.BVULe(lo, c), in.tb.BVULe(c, hi)))
			}
		}
		return res
	}
	shims["verifAssume"] = func(in *Interp, fr *frame, args []value) value {
		in.assume(args[0].(*Term))
		return nil
	}
	shims["verifAssert"] = func(in *Interp, fr *frame, args []value) value {
		in.assert(in.concStr(args[0], "assert tag"), args[1].(*Term))
		return nil
	}
	shims["verifCover"] = func(in *Interp, fr *frame, args []value) value {
		tag := in.concStr(args[0], "cover tag")
		in.path.covers[tag] = true
		in.res.Covers[tag]++
		return nil
	}
	shims["verifLabel"] = func(in *Interp, fr *frame, args []value) value {
		in.path.labels[in.concStr(args[0], "label key")] = ropeString(args[1])
		return nil
	}
	shims["verifBound"] = func(in *Interp, fr *frame, args []value) value {
		name := in.concStr(args[0], "bound name")
		if v, ok := in.cfg.Bounds[name]; ok {
			return in.intConst(int64(v))
		}
		d := in.toInt(args[1], "bound default")
		in.cfg.boundsMu.Lock()
		in.cfg.BoundsSeen[name] = d
		in.cfg.boundsMu.Unlock()
		return args[1]
	}
	shims["verifFloatEq"] = func(in *Interp, fr *frame, args []value) value {
		return in.tb.FEq(args[0].(*Term), args[1].(*Term))
	}
	shims["verifSameFloat"] = func(in *Interp, fr *frame, args []value) value {
		return in.tb.Eq(args[0].(*Term), args[1].(*Term))
	}
	// verifSameShown(a, b, d): a and b are shown as the same text with d decimals: equal, or equal
	// after scaling by 10^d and rounding to an integer (the model of fixed-precision rendering)
	shims["verifSameShown"] = func(in *Interp, fr *frame, args []value) value {
		a, b := args[0].(*Term), args[1].(*Term)
		d := in.toInt(args[2], "decimals")
		if a == b {
			return in.tb.True
		}
		scale := in.tb.Float(math.Pow(10, float64(d)))
		ra := in.tb.FRoundOp(OpFRound, in.tb.FMul(a, scale))
		rb := in.tb.FRoundOp(OpFRound, in.tb.FMul(b, scale))
		return in.tb.Or(in.tb.Eq(a, b), in.tb.Eq(ra, rb))
	}
	// verifGarbled(s): s contains the output of a formatting call whose format string had a
	// symbolic byte that may be '%'
	shims["verifGarbled"] = func(in *Interp, fr *frame, args []value) value {
		if _, ok := args[0].(string); ok {
			return in.tb.False
		}
		for _, a := range in.ropeOf(args[0]).atoms {
			if a.op != nil && a.op.verb == "fmt-garbled" {
				return in.tb.True
			}
		}
		return in.tb.False
	}
	// verifNums: the rendered floating-point values inside a string, in order.
	shims["verifNums"] = func(in *Interp, fr *frame, args []value) value {
		r := in.ropeOf(args[0])
		res := []value{}
		for _, a := range r.atoms {
			if a.op != nil && isFloatVerb(a.op.verb) {
				res = append(res, a.op.arg)
			}
		}
		return res
	}
	// verifWords: whitespace-separated words of a string, rendered numbers skipped.
	shims["verifWords"] = func(in *Interp, fr *frame, args []value) value {
		r := in.ropeOf(args[0])
		res := []value{}
		var cur []Atom
		flush := func() {
			if len(cur) > 0 {
				res = append(res, normStr(&Rope{atoms: cur}))
				cur = nil
			}
		}
		for _, a := range r.atoms {
			if a.op != nil {
				if isFloatVerb(a.op.verb) {
					flush()
					continue
				}
				cur = append(cur, a)
				continue
			}
			if !a.t.IsConst() {
				// symbolic byte: is it white space?
				ws := in.tb.False
				for _, c := range []byte{' ', '\t', '\n', '\r', '\v', '\f'} {
					ws = in.tb.Or(ws, in.tb.Eq(a.t, in.tb.BV(SBV8, uint64(c))))
				}
				if in.branch(ws) {
					flush()
				} else {
					cur = append(cur, a)
				}
				continue
			}
			switch byte(a.t.val) {
			case ' ', '\t', '\n', '\r', '\v', '\f':
				flush()
			default:
				cur = append(cur, a)
			}
		}
		flush()
		return res
	}
	// verifLines: split on '\n' (a trailing newline yields no empty last element).
	shims["verifLines"] = func(in *Interp, fr *frame, args []value) value {
		r := in.ropeOf(args[0])
		res := []value{}
		var cur []Atom
		for _, a := range r.atoms {
			if a.op == nil {
				if !a.t.IsConst() {
					if in.branch(in.tb.Eq(a.t, in.tb.BV(SBV8, '\n'))) {
						res = append(res, normStr(&Rope{atoms: cur}))
						cur = nil
						continue
					}
				} else if byte(a.t.val) == '\n' {
					res = append(res, normStr(&Rope{atoms: cur}))
					cur = nil
					continue
				}
			}
			cur = append(cur, a)
		}
		if len(cur) > 0 {
			res = append(res, normStr(&Rope{atoms: cur}))
		}
		return res
	}
	// verifAfterNum: the text following the first rendered number of a line
	shims["verifAfterNum"] = func(in *Interp, fr *frame, args []value) value {
		r := in.ropeOf(args[0])
		for i, a := range r.atoms {
			if a.op != nil && isFloatVerb(a.op.verb) {
				return normStr(&Rope{atoms: r.atoms[i+1:]})
			}
		}
		return ""
	}
	// verifContains(s, sub): sub occurs within a run of plain bytes of s (rendered pieces of s
	// never match)
	shims["verifContains"] = func(in *Interp, fr *frame, args []value) value {
		r, sub := in.ropeOf(args[0]), in.ropeOf(args[1])
		sub.byteLevel("verifContains pattern")
		n := len(sub.atoms)
		if n == 0 {
			return in.tb.True
		}
		res := in.tb.False
		for i := 0; i+n <= len(r.atoms); i++ {
			c := in.tb.True
			for j := 0; j < n && c != in.tb.False; j++ {
				a := r.atoms[i+j]
				if a.op != nil {
					c = in.tb.False
					break
				}
				c = in.tb.And(c, in.tb.Eq(a.t, sub.atoms[j].t))
			}
			res = in.tb.Or(res, c)
			if res == in.tb.True {
				break
			}
		}
		return res
	}
	// verifReplaceAll(s, old, new): replaces the occurrences of the concrete text old within the
	// runs of concrete bytes of s (rendered pieces and symbolic bytes are kept as they are; a
	// symbolic byte that could complete an occurrence is unsupported)
	shims["verifReplaceAll"] = func(in *Interp, fr *frame, args []value) value {
		old, nw := in.concStr(args[1], "verifReplaceAll old"), in.concStr(args[2], "verifReplaceAll new")
		if s, ok := args[0].(string); ok {
			return strings.ReplaceAll(s, old, nw)
		}
		r := in.ropeOf(args[0])
		var out []Atom
		var run []byte
		flush := func() {
			if len(run) > 0 {
				out = append(out, in.litAtoms(strings.ReplaceAll(string(run), old, nw))...)
				run = run[:0]
			}
		}
		for _, a := range r.atoms {
			if a.op == nil && a.t.IsConst() {
				run = append(run, byte(a.t.val))
				continue
			}
			if a.op == nil && len(old) > 0 {
				// a symbolic byte: it must not be able to take part in an occurrence
				for i := 0; i < len(old); i++ {
					if in.branch(in.tb.Eq(a.t, in.tb.BV(SBV8, uint64(old[i])))) {
						panic(unsupported{"verifReplaceAll: a symbolic byte may be part of the text to replace"})
					}
				}
			}
			flush()
			out = append(out, a)
		}
		flush()
		return normStr(&Rope{atoms: out})
	}
	// verifHasPrefix(s, prefix): the first bytes of s are plain bytes equal to the concrete prefix
	// (a rendered piece inside that range does not match)
	shims["verifHasPrefix"] = func(in *Interp, fr *frame, args []value) value {
		pre := in.concStr(args[1], "verifHasPrefix prefix")
		if s, ok := args[0].(string); ok {
			return in.tb.Bool(strings.HasPrefix(s, pre))
		}
		r := in.ropeOf(args[0])
		if len(r.atoms) < len(pre) {
			return in.tb.False
		}
		c := in.tb.True
		for i := 0; i < len(pre); i++ {
			a := r.atoms[i]
			if a.op != nil {
				return in.tb.False
			}
			c = in.tb.And(c, in.tb.Eq(a.t, in.tb.BV(SBV8, uint64(pre[i]))))
		}
		return c
	}
	shims["verifOnSend"] = func(in *Interp, fr *frame, args []value) value {
		in.path.onSend = args[0]
		if isNilFunc(args[0]) {
			in.path.onSend = nil
		}
		return nil
	}
	shims["verifEventCount"] = func(in *Interp, fr *frame, args []value) value {
		return in.intConst(int64(len(in.path.events)))
	}
	shims["verifEventKind"] = func(in *Interp, fr *frame, args []value) value {
		i := in.toInt(args[0], "event index")
		ev := in.path.events[i]
		for k := 1; k <= 3; k++ {
			if ch, ok := args[k].(*Chan); ok && ch != nil && ch.id == ev.Chan {
				return in.intConst(int64(k - 1))
			}
		}
		return in.intConst(-1)
	}
	shims["verifEventNode"] = func(in *Interp, fr *frame, args []value) value {
		return in.path.events[in.toInt(args[0], "event index")].Val
	}
	shims["verifEventErr"] = func(in *Interp, fr *frame, args []value) value {
		return in.path.events[in.toInt(args[0], "event index")].Val
	}
}

func isFloatVerb(verb string) bool {
	if !strings.HasPrefix(verb, "%") || len(verb) < 2 {
		return false
	}
	switch verb[len(verb)-1] {
	case 'f', 'g', 'e', 'F', 'G', 'E':
		return true
	}
	return false
}

// ---- helpers for building target values from engine code

func (in *Interp) findType(pkgPath, name string) types.Type {
	for _, p := range in.prog.AllPackages() {
		if p.Pkg.Path() == pkgPath {
			if o := p.Pkg.Scope().Lookup(name); o != nil {
				return o.Type()
			}
		}
	}
	panic(fmt.Sprintf("type %s.%s not found", pkgPath, name))
}

func (in *Interp) findFunc(pkgPath, name string) *ssa.Function {
	for _, p := range in.prog.AllPackages() {
		if p.Pkg.Path() == pkgPath {
			return p.Func(name)
		}
	}
	return nil
}

// newError builds an error value whose Error() returns msg (dynamic type *errors.errorString).
func (in *Interp) newError(msg value) value {
	et := in.findType("errors", "errorString")
	var cell value = structure{msg}
	return iface{t: types.NewPointer(et), v: &cell}
}

func nilError() value { return iface{} }

func (in *Interp) boolV(b bool) *Term { return in.tb.Bool(b) }

func typesPointer(t types.Type) types.Type { return types.NewPointer(t) }
