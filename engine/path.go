package main

// Paths, decision vectors, path condition, assertions.

import (
	"fmt"
	"math"
	"sort"
	"strings"
	"sync/atomic"
	"time"

	"golang.org/x/tools/go/ssa"
)

type Dec struct {
	V      int64
	Forced bool   // no alternative was feasible: nothing added to the path condition
	K      string `json:",omitempty"` // kind/tag for replay files: "br", "ch:<tag>", "cz:<what>"
}

type Event struct {
	Chan int
	Val  value
}

type InputVar struct {
	Tag  string
	K    int
	Kind string // float, int, byte, bool
	T    *Term
}

type Violation struct {
	Harness        string
	Assert         string
	Trace          []Dec
	Labels         map[string]string
	Inputs         []InputModel
	Model          map[string]string
	Panic          string
	PathID         int
	Where          string
	ShapeKey       uint64 `json:"-"`
	OrderDependent bool
}

type InputModel struct {
	Tag   string  `json:"tag"`
	K     int     `json:"k"`
	Kind  string  `json:"kind"`
	F     float64 `json:"f,omitempty"`
	I     int64   `json:"i,omitempty"`
	Txt   string  `json:"txt,omitempty"`
	Valid bool    `json:"valid"`
}

type AssertStat struct {
	Reached, Trivial, Unsat, Sat, Unknown, TwinSat int
}

type Path struct {
	prefix         []Dec
	pos            int
	trace          []Dec
	pc             []*Term
	facts          map[*Term]bool
	globals        map[*ssa.Global]*value
	steps          int
	depth          int
	inInit         int
	events         []Event
	nchan          int
	inputs         []*InputVar
	tagCount       map[string]int
	labels         map[string]string
	covers         map[string]bool
	side           map[*value]interface{} // stub state keyed by object address
	opaqueN        int
	rendered       map[string][]Atom
	files          map[string]*vfile
	notExistErrs   []*value
	days           map[string]*dayInfo
	dayByExt       map[*Term]string
	nowN           int
	pfSeen         map[*Term]bool
	pfTokens       []*Term // presentation preference: accepted tokens are plain decimals
	opaqueIDs      map[string]int
	tmplData       []value
	nViol          int
	chooseN        int // number of non-forced choose decisions (shape)
	stdout         value
	pendingGo      []pendingGoroutine
	tzShift        map[*Term]*Term // instants read in the local zone -> the UTC instant with the same wall-clock reading
	onSend         value           // verifOnSend: the consumer's reaction, run at every send of the producer
	inSendHook     bool
	goN            int // goroutines started by the code under test on this path
	sigpipeIgnored bool
	tz             int64 // local time zone offset of this path (seconds east of UTC)
	tzSet          bool
	nums           map[string]*Term // number tokens written by verifNum
	env            map[string]value
}

type PathResult struct {
	Status     string // ok, panic, dropped, unsupported, budget, error
	Msg        string
	Steps      int
	Trace      []Dec
	Labels     map[string]string
	Violations []*Violation
}

func (in *Interp) newPath(prefix []Dec) *Path {
	return &Path{
		prefix:   prefix,
		facts:    map[*Term]bool{},
		globals:  map[*ssa.Global]*value{},
		tagCount: map[string]int{},
		labels:   map[string]string{},
		covers:   map[string]bool{},
		side:     map[*value]interface{}{},
	}
}

func (in *Interp) record(d Dec) {
	p := in.path
	p.trace = append(p.trace, d)
}

func (in *Interp) pushSibling(d Dec) {
	p := in.path
	sib := make([]Dec, len(p.trace)+1)
	copy(sib, p.trace)
	sib[len(p.trace)] = d
	in.sched.push(sib)
}

func (in *Interp) replay() (Dec, bool) {
	p := in.path
	if p.pos < len(p.prefix) {
		d := p.prefix[p.pos]
		p.pos++
		return d, true
	}
	return Dec{}, false
}

func (in *Interp) addPC(c *Term) {
	in.path.pc = append(in.path.pc, c)
}

func (in *Interp) setFact(c *Term, v bool) {
	in.path.facts[c] = v
	if c.op == OpNot {
		in.path.facts[c.args[0]] = !v
	}
}

func (in *Interp) solve(kind string, extra []*Term, want []*Term) (Verdict, map[*Term]ModelVal) {
	if in.executing && !in.cfg.Deadline.IsZero() && time.Now().After(in.cfg.Deadline) {
		// the run's deadline has passed in the middle of a path (a path that keeps the solver busy
		// query after query): end it; it is reported as not explored
		panic(budgetExceeded{"run deadline"})
	}
	return in.solver.Check(kind, in.path.pc, extra, want)
}

// branch decides a (possibly symbolic) condition, forking when both outcomes are feasible.
func (in *Interp) branch(c *Term) bool {
	if c == nil {
		panic("branch on non-term")
	}
	if c.IsConst() {
		return c.BoolVal()
	}
	p := in.path
	if v, ok := p.facts[c]; ok {
		return v
	}
	if c.op == OpNot {
		if v, ok := p.facts[c.args[0]]; ok {
			return !v
		}
	}
	if p.inInit > 0 {
		panic(unsupported{"symbolic branch inside package initialiser"})
	}
	if d, ok := in.replay(); ok {
		if d.K != "" && d.K != "br" {
			panic(fmt.Sprintf("replay mismatch: expected branch, recorded %q", d.K))
		}
		in.record(d)
		take := d.V != 0
		in.setFact(c, take)
		if !d.Forced {
			if take {
				in.addPC(c)
			} else {
				in.addPC(in.tb.Not(c))
			}
		}
		return take
	}
	nc := in.tb.Not(c)
	vT, _ := in.solve("feas", []*Term{c}, nil)
	if vT == Unsat {
		in.record(Dec{V: 0, Forced: true, K: "br"})
		in.setFact(c, false)
		return false
	}
	vF, _ := in.solve("feas", []*Term{nc}, nil)
	if vF == Unsat {
		in.record(Dec{V: 1, Forced: true, K: "br"})
		in.setFact(c, true)
		return true
	}
	if vT == Unknown || vF == Unknown {
		in.res.FeasUnknown++
		atomic.AddInt64(&in.cfg.unknownSeen, 1)
	}
	in.pushSibling(Dec{V: 0, K: "br"})
	in.record(Dec{V: 1, K: "br"})
	in.setFact(c, true)
	in.addPC(c)
	return true
}

// choose is an n-way nondeterministic choice that needs no solver.
func (in *Interp) choose(n int, tag string) int {
	if n <= 0 {
		panic(fmt.Sprintf("choose(%d)", n))
	}
	if n == 1 {
		return 0
	}
	if in.path.inInit > 0 {
		panic(unsupported{"nondeterministic choice inside package initialiser"})
	}
	k := "ch:" + tag
	if d, ok := in.replay(); ok {
		if d.K != "" && d.K != k {
			panic(fmt.Sprintf("replay mismatch: expected %q, recorded %q", k, d.K))
		}
		in.record(d)
		return int(d.V)
	}
	for i := n - 1; i >= 1; i-- {
		in.pushSibling(Dec{V: int64(i), K: k})
	}
	in.record(Dec{V: 0, K: k})
	return 0
}

const concretizeCap = 300

// concretize enumerates the feasible values of a symbolic integer and forks over them.
func (in *Interp) concretize(t *Term, what string) int64 {
	if t.IsConst() {
		return t.SVal()
	}
	k := "cz:" + what
	mkEq := func(v int64) *Term { return in.tb.Eq(t, in.tb.BV(t.sort, uint64(v))) }
	if d, ok := in.replay(); ok {
		if d.K != "" && d.K != k {
			panic(fmt.Sprintf("replay mismatch: expected %q, recorded %q", k, d.K))
		}
		in.record(d)
		if !d.Forced {
			in.addPC(mkEq(d.V))
		}
		in.setFact(mkEq(d.V), true)
		return d.V
	}
	var vals []int64
	var block []*Term
	for {
		v, m := in.solve("concretise", block, []*Term{t})
		if v == Unsat {
			break
		}
		if v == Unknown {
			panic(unsupported{"solver could not enumerate values of symbolic " + what})
		}
		mv, ok := m[t]
		if !ok || !mv.Valid {
			panic(unsupported{"no model value for symbolic " + what})
		}
		val := sx(mv.Bits, t.sort.Width())
		vals = append(vals, val)
		block = append(block, in.tb.Not(mkEq(val)))
		if len(vals) > concretizeCap {
			panic(unsupported{fmt.Sprintf("more than %d feasible values for symbolic %s", concretizeCap, what)})
		}
	}
	if len(vals) == 0 {
		panic(pathEnd{"infeasible at concretise"})
	}
	sort.Slice(vals, func(i, j int) bool { return vals[i] < vals[j] })
	if len(vals) == 1 {
		in.record(Dec{V: vals[0], Forced: true, K: k})
		in.setFact(mkEq(vals[0]), true)
		return vals[0]
	}
	for i := len(vals) - 1; i >= 1; i-- {
		in.pushSibling(Dec{V: vals[i], K: k})
	}
	in.record(Dec{V: vals[0], K: k})
	in.addPC(mkEq(vals[0]))
	in.setFact(mkEq(vals[0]), true)
	return vals[0]
}

// ---- assertions

func (in *Interp) assume(c *Term) {
	if c.IsConst() {
		if !c.BoolVal() {
			in.res.AssumeDropped++
			panic(pathEnd{"assume"})
		}
		return
	}
	if v, ok := in.path.facts[c]; ok {
		if !v {
			in.res.AssumeDropped++
			panic(pathEnd{"assume"})
		}
		return
	}
	if in.path.pos < len(in.path.prefix) {
		// replaying a recorded prefix: the run that recorded it passed this assumption under the
		// same path condition and went on to later decisions, so it is satisfiable
		in.addPC(c)
		in.setFact(c, true)
		return
	}
	v, _ := in.solve("assume", []*Term{c}, nil)
	if v == Unsat {
		in.res.AssumeDropped++
		panic(pathEnd{"assume"})
	}
	in.addPC(c)
	in.setFact(c, true)
}

func (in *Interp) inputTerms() []*Term {
	var ts []*Term
	for _, iv := range in.path.inputs {
		ts = append(ts, iv.T)
	}
	return ts
}

func (in *Interp) assertStat(tag string) *AssertStat {
	st := in.res.Asserts[tag]
	if st == nil {
		st = &AssertStat{}
		in.res.Asserts[tag] = st
	}
	return st
}

func (in *Interp) assert(tag string, c *Term) {
	st := in.assertStat(tag)
	st.Reached++
	if in.cfg.Twin && st.TwinSat == 0 {
		// vacuity twin: "assert(false)" here must be violated, i.e. PC must be satisfiable
		if v, _ := in.solve("twin", nil, nil); v == Sat {
			st.TwinSat++
		}
	}
	if in.cfg.AssertFilter != nil && !in.cfg.AssertFilter(tag) {
		// assertion belongs to another property: assume it so later ones see the same state
		if !c.IsConst() {
			in.assume(c)
		} else if !c.BoolVal() {
			panic(pathEnd{"foreign assertion false"})
		}
		return
	}
	if c.IsConst() && c.BoolVal() {
		st.Trivial++
		return
	}
	if v, ok := in.path.facts[c]; ok && v {
		st.Trivial++
		return
	}
	nc := in.tb.Not(c)
	v, model := in.solve("assert", []*Term{nc}, in.inputTerms())
	switch v {
	case Unsat:
		st.Unsat++
		in.setFact(c, true)
		in.crossCheck(tag, nc)
		return
	case Unknown:
		// portfolio: the other back ends may decide what the first could not
		for _, xs := range in.xsolvers {
			xv, xm := xs.Check("assert-fallback", in.path.pc, []*Term{nc}, in.inputTerms())
			if xv == Unsat {
				st.Unsat++
				in.setFact(c, true)
				return
			}
			if xv == Sat {
				st.Sat++
				atomic.AddInt64(&in.cfg.violationsSeen, 1)
				in.recordViolation(tag, xm, "")
				return
			}
		}
		st.Unknown++
		atomic.AddInt64(&in.cfg.unknownSeen, 1)
		in.res.Inconclusive = append(in.res.Inconclusive, fmt.Sprintf("assert %s: solver answered unknown", tag))
		in.assume(c)
		return
	}
	st.Sat++
	atomic.AddInt64(&in.cfg.violationsSeen, 1)
	// try a presentable model (small integers) first - for the first violations of a run only:
	// the search costs solver time and the later ones are alternates of the same group
	if atomic.LoadInt64(&in.cfg.violationsSeen) <= 48 {
		if pm := in.presentableModel(nc); pm != nil {
			model = pm
		}
	}
	in.recordViolation(tag, model, "")
	// execution continues with the path condition unchanged, so that later assertions are
	// checked for the same inputs (a second defect with the same trigger is not masked)
}

// crossCheck re-decides a discharged assertion with the other back ends (thorough tier, or
// the first query of each harness in the quick tier).
func (in *Interp) crossCheck(tag string, nc *Term) {
	if len(in.xsolvers) == 0 {
		return
	}
	if in.cfg.CrossCheckEvery <= 0 {
		return
	}
	in.xcount++
	if in.cfg.CrossCheckEvery > 1 && (in.xcount-1)%in.cfg.CrossCheckEvery != 0 {
		return
	}
	for _, xs := range in.xsolvers {
		v, _ := xs.Check("cross", in.path.pc, []*Term{nc}, nil)
		in.res.CrossChecked++
		if v == Sat {
			in.res.Inconclusive = append(in.res.Inconclusive, fmt.Sprintf("assert %s: solver disagreement (%v says sat)", tag, xs.kind))
		} else if v == Unknown {
			in.res.CrossUnknown++
		}
	}
}

func (in *Interp) presentableModel(nc *Term) map[*Term]ModelVal {
	var extra []*Term
	extra = append(extra, nc)
	tb := in.tb
	n := 0
	for _, iv := range in.path.inputs {
		switch iv.Kind {
		case "float":
			if FloatReal {
				// integer in [-9, 20]: x = k for some k encoded as bounded disjunction is heavy;
				// use bounds plus integrality through a fresh Int-valued UF-free trick: x*1 = to_real(to_int x)
				lo, hi := tb.Float(-9), tb.Float(20)
				extra = append(extra, tb.FLe(lo, iv.T), tb.FLe(iv.T, hi), tb.UF("smt:is_int", SBool, iv.T))
				n++
			}
		case "byte":
			if strings.HasSuffix(iv.Tag, "num") {
				// number tokens are constrained below through pfTokens
			} else {
				// printable ASCII
				extra = append(extra, tb.BVULe(tb.BV(SBV8, 0x20), iv.T), tb.BVULe(iv.T, tb.BV(SBV8, 0x7e)))
			}
			n++
		}
	}
	if n == 0 {
		return nil
	}
	extra = append(extra, in.path.pfTokens...)
	v, m := in.solve("present", extra, in.inputTerms())
	if v == Sat {
		return m
	}
	return nil
}

func (in *Interp) modelInputs(model map[*Term]ModelVal) []InputModel {
	var res []InputModel
	for _, iv := range in.path.inputs {
		im := InputModel{Tag: iv.Tag, K: iv.K, Kind: iv.Kind}
		if mv, ok := model[iv.T]; ok && mv.Valid {
			im.Valid = true
			switch iv.Kind {
			case "float":
				im.F = mv.Float64()
				if math.IsNaN(im.F) || math.IsInf(im.F, 0) {
					im.F = 0 // not representable in JSON; FP-mode replays use the bit pattern in Txt
				}
				if mv.Rat != nil {
					im.Txt = mv.Rat.RatString()
				} else {
					im.Txt = fmt.Sprintf("%016x", mv.Bits)
				}
			case "bool":
				im.I = int64(mv.Bits)
			default:
				im.I = sx(mv.Bits, iv.T.sort.Width())
			}
		}
		res = append(res, im)
	}
	return res
}

func (in *Interp) recordViolation(tag string, model map[*Term]ModelVal, panicMsg string) {
	p := in.path
	p.nViol++
	v := &Violation{
		Harness: in.cfg.Harness,
		Assert:  tag,
		Trace:   append([]Dec(nil), p.trace...),
		Labels:  map[string]string{},
		Inputs:  in.modelInputs(model),
		Panic:   panicMsg,
	}
	for k, x := range p.labels {
		v.Labels[k] = x
	}
	in.res.Violations = append(in.res.Violations, v)
}
