package main

// Native replay: counterexamples (and witness models of passing paths) are run against the
// natively compiled real code with `go test -overlay`, the harness and shim injected virtually.

import (
	"crypto/sha256"
	"encoding/json"
	"fmt"
	"os"
	"os/exec"
	"path/filepath"
	"sort"
	"strings"
	"time"
)

type replayCase struct {
	Property  string            `json:"property"`
	Harness   string            `json:"harness"`
	Func      string            `json:"func"`
	Assert    string            `json:"assert"`
	FloatMode string            `json:"float_mode"`
	MapOrder  string            `json:"map_order"`
	Bounds    map[string]int    `json:"bounds"`
	Inputs    []InputModel      `json:"inputs"`
	Decisions []Dec             `json:"decisions"`
	Labels    map[string]string `json:"labels"`
	Panic     string            `json:"panic,omitempty"`
	OrderDep  bool              `json:"order_dependent"`
	Expect    string            `json:"expect"` // violated | clean
	Attempts  int               `json:"attempts"`
	ReplayCmd string            `json:"replay_cmd,omitempty"`
}

type replayer struct {
	ld      *Loaded
	prop    string
	dir     string
	n       int
	ovPath  map[string]string // pkg rel -> overlay json
	cmdLogs []string
}

func newReplayer(ld *Loaded, prop string) *replayer {
	return &replayer{ld: ld, prop: prop, ovPath: map[string]string{}}
}

func (r *replayer) cleanup() {
	if r.dir != "" {
		os.RemoveAll(r.dir)
	}
}

// childMainTmpl: in package main the test binary doubles as the program: re-executed with
// VERIF_CHILD_MAIN=1 it runs the real main() with the given arguments (verifMain, natively).
const childMainTmpl = `
func TestVerifChildMain(t *testing.T) {
	if os.Getenv("VERIF_CHILD_MAIN") != "1" {
		return
	}
	os.Args = verifChildArgs()
	main()
	os.Exit(0)
}
`

const driverTmpl = `package PKG

import (
	"fmt"
	"os"
	"strconv"
	"testing"
)

// the process's real standard output (harnesses may redirect os.Stdout and panic before restoring it)
var verifRealStdout = os.Stdout

var verifHarnessTable = map[string]func(){
TABLE}

func verifRunOne(f func()) (fails []string, pan string, assumeFailed bool) {
	defer func() {
		if r := recover(); r != nil {
			if _, ok := r.(verifAssumeFailed); ok {
				assumeFailed = true
			} else {
				pan = fmt.Sprint(r)
			}
		}
		fails = verifSt.Failures
	}()
	f()
	return
}

func TestVerifReplay(t *testing.T) {
	verifLoad()
	defer verifReset() // removes the temporary files of the last run
	rp := verifSt.rp
	f := verifHarnessTable[os.Getenv("VERIF_FUNC")]
	if f == nil {
		fmt.Fprintln(verifRealStdout, "VERIF-REPLAY: no-such-harness", os.Getenv("VERIF_FUNC"))
		return
	}
	attempts, _ := strconv.Atoi(os.Getenv("VERIF_ATTEMPTS"))
	if attempts <= 0 {
		attempts = 1
	}
	want := rp.Assert
	expect := os.Getenv("VERIF_EXPECT")
	seen := map[string]int{}
	assumeFails := 0
	for i := 0; i < attempts; i++ {
		os.Setenv("VERIF_EPOCH", strconv.Itoa(i+1))
		verifReset()
		fails, pan, af := verifRunOne(f)
		if af {
			assumeFails++
			continue
		}
		if pan != "" {
			seen["no-panic"]++
			if expect == "violated" && want == "no-panic" {
				fmt.Fprintf(verifRealStdout, "VERIF-REPLAY: reproduced assert=no-panic attempt=%d panic=%q\n", i, pan)
				return
			}
			if expect == "clean" {
				fmt.Fprintf(verifRealStdout, "VERIF-REPLAY: unexpected-failure panic=%q\n", pan)
				return
			}
		}
		for _, fl := range fails {
			seen[fl]++
			if expect == "violated" && fl == want {
				fmt.Fprintf(verifRealStdout, "VERIF-REPLAY: reproduced assert=%s attempt=%d\n", fl, i)
				return
			}
		}
		if expect == "clean" && len(fails) > 0 {
			fmt.Fprintf(verifRealStdout, "VERIF-REPLAY: unexpected-failure asserts=%v\n", fails)
			return
		}
	}
	if expect == "clean" {
		if assumeFails == attempts {
			fmt.Fprintln(verifRealStdout, "VERIF-REPLAY: assume-failed")
			return
		}
		fmt.Fprintln(verifRealStdout, "VERIF-REPLAY: clean")
		return
	}
	fmt.Fprintf(verifRealStdout, "VERIF-REPLAY: not-reproduced seen=%v assume-failed=%d\n", seen, assumeFails)
}
`

func harnessRel(spec string) (rel, fn string) {
	i := strings.LastIndex(spec, ":")
	rel, fn = spec[:i], spec[i+1:]
	if rel == "_root" {
		rel = "."
	}
	return
}

// overlayFor writes the overlay description for package rel and returns its path.
func (r *replayer) overlayFor(rel string) (string, error) {
	if p, ok := r.ovPath[rel]; ok {
		return p, nil
	}
	if r.dir == "" {
		d, err := os.MkdirTemp("", "symgo-replay-")
		if err != nil {
			return "", err
		}
		r.dir = d
	}
	repl := map[string]string{}
	pkgName := ""
	var harnessFuncs []string
	for target, content := range r.ld.Overlay {
		real := filepath.Join(r.dir, fmt.Sprintf("ov_%x_%s", sha256.Sum256([]byte(target)), filepath.Base(target)))
		if _, err := os.Stat(real); err != nil {
			if err := os.WriteFile(real, content, 0o644); err != nil {
				return "", err
			}
		}
		repl[target] = real
		if filepath.Dir(target) == filepath.Clean(filepath.Join(r.ld.RepoDir, rel)) {
			pkgName = packageClause(content)
			for _, l := range strings.Split(string(content), "\n") {
				if strings.HasPrefix(l, "func Harness_") {
					name := l[len("func "):]
					if j := strings.IndexByte(name, '('); j > 0 {
						harnessFuncs = append(harnessFuncs, name[:j])
					}
				}
			}
		}
	}
	if pkgName == "" {
		return "", fmt.Errorf("no harness files for package %s", rel)
	}
	sort.Strings(harnessFuncs)
	var tbl strings.Builder
	for _, h := range harnessFuncs {
		fmt.Fprintf(&tbl, "\t%q: %s,\n", h, h)
	}
	drv := strings.Replace(strings.Replace(driverTmpl, "package PKG", "package "+pkgName, 1), "TABLE", tbl.String(), 1)
	if pkgName == "main" {
		drv += childMainTmpl
	}
	drvReal := filepath.Join(r.dir, "driver_"+strings.ReplaceAll(rel, "/", "_")+"_test.go")
	if err := os.WriteFile(drvReal, []byte(drv), 0o644); err != nil {
		return "", err
	}
	repl[filepath.Join(r.ld.RepoDir, rel, "zz_verif_replay_test.go")] = drvReal
	b, _ := json.Marshal(map[string]interface{}{"Replace": repl})
	p := filepath.Join(r.dir, "overlay_"+strings.ReplaceAll(rel, "/", "_")+".json")
	if err := os.WriteFile(p, b, 0o644); err != nil {
		return "", err
	}
	r.ovPath[rel] = p
	return p, nil
}

func (r *replayer) run(rc *replayCase, jsonPath string) (string, error) {
	rel, fn := harnessRel(rc.Harness)
	ov, err := r.overlayFor(rel)
	if err != nil {
		return "", err
	}
	pkgArg := "./" + rel
	dir := r.ld.RepoDir
	if strings.HasPrefix(rel, "cmd/hranoprovod-cli") {
		dir = filepath.Join(r.ld.RepoDir, "cmd/hranoprovod-cli")
		pkgArg = "./" + strings.TrimPrefix(strings.TrimPrefix(rel, "cmd/hranoprovod-cli"), "/")
	}
	deadline := "300s"
	if rc.Assert == "terminates" {
		deadline = "45s" // a run that does not end is what is being reproduced
	}
	cmd := exec.Command("go", "test", "-v", "-vet=off", "-count=1", "-overlay", ov, "-run", "^TestVerifReplay$", "-timeout", deadline, pkgArg)
	cmd.Dir = dir
	cmd.Env = append(append([]string{}, r.ld.Env...), "VERIF_REPLAY="+jsonPath, "VERIF_FUNC="+fn, "VERIF_EXPECT="+rc.Expect, fmt.Sprintf("VERIF_ATTEMPTS=%d", rc.Attempts))
	t0 := time.Now()
	out, err := cmd.CombinedOutput()
	_ = t0
	return string(out), err
}

func replayVerdict(out string) string {
	for _, l := range strings.Split(out, "\n") {
		if strings.HasPrefix(l, "VERIF-REPLAY: ") {
			return strings.TrimPrefix(l, "VERIF-REPLAY: ")
		}
	}
	return ""
}

func (r *replayer) caseFor(hr *HarnessResult, v *Violation) *replayCase {
	_, fn := harnessRel(hr.Harness)
	rc := &replayCase{Property: r.prop, Harness: hr.Harness, Func: fn, Assert: v.Assert, FloatMode: hr.FloatMode, MapOrder: hr.MapOrder,
		Bounds: hr.Bounds, Inputs: v.Inputs, Decisions: v.Trace, Labels: v.Labels, Panic: v.Panic, OrderDep: v.OrderDependent, Expect: "violated", Attempts: 1}
	for _, d := range v.Trace {
		if d.K == "ch:maporder" {
			rc.Attempts = 3000
			break
		}
		if d.K == "ch:select" {
			rc.Attempts = 40 // the outcome of a non-blocking send depends on the native schedule
			break
		}
	}
	if v.Labels["schedule"] != "" && rc.Attempts < 60 {
		rc.Attempts = 60 // a goroutine was involved: the native schedule varies
	}
	for range []int{} {
	}
	return rc
}

// replayViolation writes the replay file under /verif/replays and runs it natively.
func (r *replayer) replayViolation(hr *HarnessResult, v *Violation) (string, bool, string) {
	rc := r.caseFor(hr, v)
	r.n++
	dir := filepath.Join(outDir(), "replays")
	os.MkdirAll(dir, 0o755)
	_, fn := harnessRel(hr.Harness)
	path := filepath.Join(dir, fmt.Sprintf("%s-%s-%s-%d.json", r.prop, fn, tagRe.ReplaceAllString(v.Assert, "_"), r.n))
	rc.ReplayCmd = fmt.Sprintf("%s/check %s --replay %s", verifDir(), r.prop, path)
	b, _ := json.MarshalIndent(rc, "", " ")
	os.WriteFile(path, append(b, '\n'), 0o644)
	out, err := r.run(rc, path)
	verdict := replayVerdict(out)
	if verdict == "" && (v.Assert == "terminates" || v.Assert == "no-panic") &&
		(strings.Contains(out, "fatal error: stack overflow") || strings.Contains(out, "goroutine stack exceeds") || strings.Contains(out, "panic: test timed out")) {
		// unbounded recursion cannot be recovered in-process: the native run dies or hangs
		verdict = "reproduced assert=" + v.Assert + " (the native process died: stack overflow or test deadline)"
	}
	if strings.HasPrefix(verdict, "reproduced") {
		return path, true, verdict
	}
	if verdict == "" {
		verdict = "native run failed: " + firstLines(out, 12)
		if err != nil {
			verdict += " (" + err.Error() + ")"
		}
	}
	return path, false, verdict
}

// validateSamples replays witness models of passing sample paths; they must run clean.
func (r *replayer) validateSamples(hr *HarnessResult) (int, int, []string) {
	n, bad := 0, 0
	var msgs []string
	_, fn := harnessRel(hr.Harness)
	for i, s := range hr.Res.ValSamples {
		if i >= 6 {
			break
		}
		scheduleDependent := false
		for _, d := range s.Trace {
			if d.K == "ch:select" {
				scheduleDependent = true
			}
		}
		if scheduleDependent {
			continue // the native schedule cannot be forced to take the same select outcome
		}
		rc := &replayCase{Property: r.prop, Harness: hr.Harness, Func: fn, FloatMode: hr.FloatMode, MapOrder: hr.MapOrder,
			Bounds: hr.Bounds, Inputs: s.Inputs, Decisions: s.Trace, Expect: "clean", Attempts: 1}
		for _, d := range s.Trace {
			if d.K == "ch:maporder" {
				rc.Attempts = 5
				break
			}
		}
		if r.dir == "" {
			if _, err := r.overlayFor(strings.Split(hr.Harness, ":")[0]); err != nil {
				msgs = append(msgs, "validation: "+err.Error())
				return n, bad, msgs
			}
		}
		p := filepath.Join(r.dir, fmt.Sprintf("val-%s-%d.json", fn, i))
		b, _ := json.Marshal(rc)
		os.WriteFile(p, b, 0o644)
		out, err := r.run(rc, p)
		verdict := replayVerdict(out)
		switch {
		case verdict == "clean":
			n++
		case verdict == "assume-failed":
			// the witness does not satisfy the harness assumptions natively (rounding): not counted
		default:
			bad++
			if verdict == "" {
				verdict = "native run failed: " + firstLines(out, 12)
				if err != nil {
					verdict += " (" + err.Error() + ")"
				}
			}
			// keep the file for inspection
			keep := filepath.Join(outDir(), "replays", fmt.Sprintf("%s-%s-validation-%d.json", r.prop, fn, i))
			os.MkdirAll(filepath.Dir(keep), 0o755)
			os.WriteFile(keep, b, 0o644)
			msgs = append(msgs, fmt.Sprintf("translator validation: %s passes in the executor but natively: %s (replay=%s)", hr.Harness, verdict, keep))
		}
	}
	return n, bad, msgs
}
