package main

// Virtual file system: files registered by the harness with verifFile; everything else does
// not exist. os.Stat may additionally report "other error" for names registered with verifStatErr.

import (
	"fmt"
	"go/types"
	"strings"
	"time"
)

type vfile struct {
	fifo    bool // a named pipe: size 0 as far as Stat knows, yet reading delivers the content
	name    string
	content value // string or rope
	exists  bool
	statErr bool // stat fails with an error other than not-exist
	isDir   bool
	opens   int
}

type openFile struct {
	f   *vfile
	pos int
}

func (in *Interp) vfs() map[string]*vfile {
	if in.path.files == nil {
		in.path.files = map[string]*vfile{}
	}
	return in.path.files
}

func (in *Interp) pathError(op string, name value, msg string) value {
	et := in.findType("io/fs", "PathError")
	z := in.zero(et).(structure)
	z[0] = op
	z[1] = name
	z[2] = in.newError(msg)
	var cell value = z
	return iface{t: types.NewPointer(et), v: &cell}
}

func init() {
	shims["verifFile"] = func(in *Interp, fr *frame, args []value) value {
		tag := in.concStr(args[0], "file tag")
		name := "/virtual/" + tag
		in.vfs()[name] = &vfile{name: name, content: args[1], exists: true}
		return name
	}
	shims["verifMissingFile"] = func(in *Interp, fr *frame, args []value) value {
		return "/virtual/missing/" + in.concStr(args[0], "file tag")
	}
	shims["verifOpens"] = func(in *Interp, fr *frame, args []value) value {
		name := in.concStr(args[0], "file name")
		if f, ok := in.vfs()[name]; ok {
			return in.intConst(int64(f.opens))
		}
		return in.intConst(0)
	}
	externals["os.Open"] = func(in *Interp, fr *frame, args []value) value {
		name, ok := args[0].(string)
		if !ok {
			panic(unsupported{"os.Open with symbolic name"})
		}
		if name == "/dev/null" {
			if _, ok := in.vfs()[name]; !ok {
				in.vfs()[name] = &vfile{name: name, content: "", exists: true} // the null device reads as an empty file
			}
		}
		f, ok := in.vfs()[name]
		if !ok || !f.exists {
			e := in.pathError("open", name, "no such file or directory")
			in.path.notExistErrs = append(in.path.notExistErrs, e.(iface).v.(*value))
			return tuple{(*value)(nil), e}
		}
		f.opens++
		t := in.findType("os", "File")
		cell := in.zero(t)
		p := &cell
		in.path.side[p] = &openFile{f: f}
		return tuple{p, nilError()}
	}
	fileOf := func(in *Interp, v value) *openFile {
		p, ok := v.(*value)
		if !ok || p == nil {
			return nil
		}
		of, _ := in.path.side[p].(*openFile)
		return of
	}
	externals["(*os.File).Read"] = func(in *Interp, fr *frame, args []value) value {
		of := fileOf(in, args[0])
		if of == nil {
			return tuple{in.intConst(0), in.newError("invalid argument")}
		}
		if of.f.isDir {
			return tuple{in.intConst(0), in.pathError("read", of.f.name, "is a directory")}
		}
		buf := args[1].([]value)
		bs := in.bytesOf(of.f.content)
		if of.pos >= len(bs) {
			return tuple{in.intConst(0), in.ioEOF()}
		}
		n := len(bs) - of.pos
		if n > len(buf) {
			n = len(buf)
		}
		for i := 0; i < n; i++ {
			buf[i] = bs[of.pos+i]
		}
		of.pos += n
		return tuple{in.intConst(int64(n)), nilError()}
	}
	// (*os.File).Stat: a FileInfo (the real *os.fileStat type) with the size of the virtual file;
	// a named pipe reports size 0 whatever is written into it
	externals["(*os.File).Stat"] = func(in *Interp, fr *frame, args []value) value {
		of := fileOf(in, args[0])
		if of == nil {
			return tuple{iface{}, in.newError("invalid argument")}
		}
		t := in.findType("os", "fileStat")
		z := in.zero(t).(structure)
		st := t.Underlying().(*types.Struct)
		for i := 0; i < st.NumFields(); i++ {
			switch st.Field(i).Name() {
			case "name":
				z[i] = of.f.name
			case "size":
				n := 0
				if !of.f.fifo && !of.f.isDir {
					n = len(in.bytesOf(of.f.content))
				}
				z[i] = in.intConst(int64(n))
			}
		}
		var cell value = z
		return tuple{iface{t: types.NewPointer(t), v: &cell}, nilError()}
	}
	shims["verifFifo"] = func(in *Interp, fr *frame, args []value) value {
		name := "/virtual/fifo/" + in.concStr(args[0], "fifo tag")
		in.vfs()[name] = &vfile{name: name, content: args[1], exists: true, fifo: true}
		return name
	}
	externals["(*os.File).Close"] = func(in *Interp, fr *frame, args []value) value {
		if fileOf(in, args[0]) == nil {
			return in.newError("invalid argument")
		}
		return nilError()
	}
	externals["os.Stat"] = func(in *Interp, fr *frame, args []value) value {
		name, ok := args[0].(string)
		if !ok {
			panic(unsupported{"os.Stat with symbolic name"})
		}
		f, ok := in.vfs()[name]
		if ok && f.statErr {
			return tuple{iface{}, in.pathError("stat", name, "permission denied")}
		}
		if !ok || !f.exists {
			e := in.pathError("stat", name, "no such file or directory")
			in.path.notExistErrs = append(in.path.notExistErrs, e.(iface).v.(*value))
			return tuple{iface{}, e}
		}
		// a non-nil FileInfo whose methods are never used by the code under test
		return tuple{iface{t: types.Typ[types.Int], v: in.intConst(0)}, nilError()}
	}
	externals["os.IsNotExist"] = func(in *Interp, fr *frame, args []value) value {
		e, ok := args[0].(iface)
		if !ok || e.t == nil {
			return in.tb.False
		}
		if p, ok := e.v.(*value); ok {
			for _, q := range in.path.notExistErrs {
				if p == q {
					return in.tb.True
				}
			}
		}
		return in.tb.False
	}
}

func (in *Interp) ioEOF() value {
	for _, p := range in.prog.AllPackages() {
		if p.Pkg.Path() == "io" {
			g := p.Var("EOF")
			return *in.globalAddr(g)
		}
	}
	panic("io.EOF not found")
}

var _ = fmt.Sprintf

// gcfg.ReadInto(config, reader): contract stub. The reader is drained through its own Read
// method; the text is interpreted as the documented INI subset ([Section] headers,
// `key = value` lines, ';'/'#' comments) and assigned to the fields of the Options sections
// Global (DbFileName, LogFileName, DateFormat) and Resolver (MaxDepth). Anything else is an error.
func init() {
	externals["gopkg.in/gcfg.v1.ReadInto"] = func(in *Interp, fr *frame, args []value) value {
		cfgItf := args[0].(iface)
		optPtr, ok := cfgItf.v.(*value)
		if !ok || optPtr == nil {
			panic(unsupported{"gcfg.ReadInto target"})
		}
		rd := args[1].(iface)
		readM := in.prog.LookupMethod(rd.t, nil, "Read")
		var text []byte
		for guard := 0; guard < 1000; guard++ {
			buf := make([]value, 512)
			z := in.tb.BV(SBV8, 0)
			for i := range buf {
				buf[i] = z
			}
			res := in.call(fr, 0, readM, []value{rd.v, buf}).(tuple)
			n := in.toInt(res[0], "read count")
			for i := 0; i < n; i++ {
				b := buf[i].(*Term)
				if !b.IsConst() {
					panic(unsupported{"gcfg.ReadInto on symbolic configuration text"})
				}
				text = append(text, byte(b.val))
			}
			if e, ok := res[1].(iface); ok && e.t != nil {
				break
			}
		}
		opts := (*optPtr).(structure)
		st := mustDeref(cfgItf.t).Underlying().(*types.Struct)
		secOf := func(tag string) (structure, *types.Struct) {
			for i := 0; i < st.NumFields(); i++ {
				if strings.Contains(st.Tag(i), `gcfg:"`+tag+`"`) {
					return opts[i].(structure), st.Field(i).Type().Underlying().(*types.Struct)
				}
			}
			// without a tag the section name is the field name, case-insensitively
			for i := 0; i < st.NumFields(); i++ {
				if !strings.Contains(st.Tag(i), "gcfg:") && st.Field(i).Exported() && strings.EqualFold(st.Field(i).Name(), tag) {
					if fs, ok := st.Field(i).Type().Underlying().(*types.Struct); ok {
						return opts[i].(structure), fs
					}
				}
			}
			return nil, nil
		}
		section := ""
		for _, line := range strings.Split(string(text), "\n") {
			line = strings.TrimSpace(line)
			if line == "" || line[0] == ';' || line[0] == '#' {
				continue
			}
			if line[0] == '[' && line[len(line)-1] == ']' {
				section = strings.TrimSpace(line[1 : len(line)-1])
				continue
			}
			eq := strings.IndexByte(line, '=')
			if eq < 0 {
				return in.newError("gcfg: invalid line")
			}
			key, val := strings.TrimSpace(line[:eq]), strings.TrimSpace(line[eq+1:])
			if len(val) >= 2 && val[0] == '"' && val[len(val)-1] == '"' {
				val = val[1 : len(val)-1]
			}
			sec, sst := secOf(section)
			if sec == nil {
				return in.newError("gcfg: invalid section " + section)
			}
			found := false
			for i := 0; i < sst.NumFields(); i++ {
				if strings.EqualFold(sst.Field(i).Name(), key) {
					found = true
					switch b := sst.Field(i).Type().Underlying().(type) {
					case *types.Basic:
						if b.Info()&types.IsString != 0 {
							sec[i] = val
						} else if b.Info()&types.IsInteger != 0 {
							var n int64
							if _, err := fmt.Sscan(val, &n); err != nil {
								return in.newError("gcfg: invalid integer")
							}
							sec[i] = in.intConst(n)
						} else {
							return in.newError("gcfg: unsupported field type")
						}
					default:
						// time.Time implements encoding.TextUnmarshaler (RFC 3339)
						if named, ok := sst.Field(i).Type().(*types.Named); ok && named.Obj().Pkg() != nil && named.Obj().Pkg().Path() == "time" && named.Obj().Name() == "Time" {
							t, err := time.Parse(time.RFC3339, val)
							if err != nil {
								return in.newError("gcfg: invalid time")
							}
							sec[i] = in.timeFromNative(t)
							break
						}
						return in.newError("gcfg: unsupported field type")
					}
				}
			}
			if !found {
				return in.newError("gcfg: invalid variable " + key)
			}
		}
		return nilError()
	}
}
