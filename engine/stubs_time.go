package main

// Contract stubs for package time. time.Time is the real struct {wall uint64; ext int64; loc
// *Location}; comparison methods (After, Before, Equal, IsZero, Sub) run from their real SSA.

import (
	"fmt"
	"strings"
	"time"
)

const unixToInternal = 62135596800
const dayBaseInternal = 1609459200 + unixToInternal // 2021-01-01T00:00:00Z

type dayInfo struct {
	d      *Term // BV64 day number
	layout string
	ext    *Term
}

func (in *Interp) mkTime(wall, ext *Term) value {
	return structure{wall, ext, (*value)(nil)}
}

func (in *Interp) timeFromNative(t time.Time) value {
	u := t.UTC()
	return in.mkTime(in.tb.BV(SBV64, uint64(u.Nanosecond())), in.tb.BV(SBV64, uint64(u.Unix()+unixToInternal)))
}

// nativeTime converts a fully concrete UTC Time value back to a native time.Time.
func nativeTime(v value) (time.Time, bool) {
	st, ok := v.(structure)
	if !ok || len(st) != 3 {
		return time.Time{}, false
	}
	w, ok1 := st[0].(*Term)
	e, ok2 := st[1].(*Term)
	if !ok1 || !ok2 || !w.IsConst() || !e.IsConst() {
		return time.Time{}, false
	}
	if p, ok := st[2].(*value); !ok || p != nil {
		return time.Time{}, false
	}
	if w.val>>63 != 0 {
		return time.Time{}, false
	}
	return time.Unix(e.SVal()-unixToInternal, int64(w.val&(1<<30-1))).UTC(), true
}

func init() {
	shims["verifDay"] = func(in *Interp, fr *frame, args []value) value {
		tag := in.concStr(args[0], "tag")
		layout := in.concStr(args[1], "layout")
		span := args[2].(*Term)
		d := in.newInput(tag, "int", SBV64)
		in.assume(in.tb.BVSLe(in.tb.BV(SBV64, 0), d))
		in.assume(in.tb.BVSLt(d, span))
		ph := fmt.Sprintf("@d.%s.%d", tagRe.ReplaceAllString(tag, "_"), len(in.path.days))
		ext := in.tb.BVAdd(in.tb.BV(SBV64, dayBaseInternal), in.tb.BVMul(d, in.tb.BV(SBV64, 86400)))
		if in.path.days == nil {
			in.path.days = map[string]*dayInfo{}
			in.path.dayByExt = map[*Term]string{}
		}
		in.path.days[ph] = &dayInfo{d: d, layout: layout, ext: ext}
		in.path.dayByExt[ext] = ph
		return ph
	}
	externals["time.Parse"] = func(in *Interp, fr *frame, args []value) value {
		layout := in.concStr(args[0], "time.Parse layout")
		perr := func() value {
			et := in.findType("time", "ParseError")
			cell := in.zero(et)
			return iface{t: typesPointer(et), v: &cell}
		}
		zeroT := in.mkTime(in.tb.BV(SBV64, 0), in.tb.BV(SBV64, 0))
		if s, ok := args[1].(string); ok {
			if di, ok := in.path.days[s]; ok {
				if di.layout == layout {
					return tuple{in.mkTime(in.tb.BV(SBV64, 0), di.ext), nilError()}
				}
				// a date written in one layout does not parse under another
				return tuple{zeroT, perr()}
			}
			t, err := time.Parse(layout, s)
			if err != nil {
				return tuple{zeroT, perr()}
			}
			return tuple{in.timeFromNative(t), nilError()}
		}
		// symbolic text: uninterpreted in (layout, bytes)
		r := in.ropeOf(args[1])
		r.byteLevel("time.Parse")
		bs := make([]*Term, len(r.atoms))
		for i, a := range r.atoms {
			bs[i] = a.t
		}
		if len(bs) == 0 {
			return tuple{zeroT, perr()}
		}
		key := fmt.Sprintf("%x", []byte(layout))
		okT := in.tb.UF(fmt.Sprintf("tpok_%s_%d", key, len(bs)), SBool, bs...)
		sec := in.tb.UF(fmt.Sprintf("tpsec_%s_%d", key, len(bs)), SBV64, bs...)
		if in.branch(okT) {
			// representable range: years 1..9999
			in.assume(in.tb.BVSLe(in.tb.BV(SBV64, 1), sec)) // the clock never reads the zero Time
			in.assume(in.tb.BVSLt(sec, in.tb.BV(SBV64, 315537897600)))
			return tuple{in.mkTime(in.tb.BV(SBV64, 0), sec), nilError()}
		}
		return tuple{zeroT, perr()}
	}
	// time.ParseInLocation(layout, value, loc): the wall-clock reading of time.Parse taken in loc:
	// for the local zone with offset off the instant is off seconds earlier
	externals["time.ParseInLocation"] = func(in *Interp, fr *frame, args []value) value {
		res := externals["time.Parse"](in, fr, args[:2]).(tuple)
		if e, ok := res[1].(iface); ok && e.t != nil {
			return res
		}
		lp, _ := args[2].(*value)
		if lp == nil || lp == in.timeGlobalAddr("utcLoc") {
			return res
		}
		if lp != in.timeGlobalAddr("localLoc") {
			panic(unsupported{"time.ParseInLocation in a zone other than UTC and Local"})
		}
		off := in.tzOffset()
		st := res[0].(structure)
		ext := st[1].(*Term)
		shifted := in.tb.BVAdd(ext, in.tb.BV(SBV64, uint64(-off)))
		if in.path.tzShift == nil {
			in.path.tzShift = map[*Term]*Term{}
		}
		in.path.tzShift[shifted] = ext // the local wall-clock reading of this instant is that of ext in UTC
		return tuple{structure{st[0], shifted, lp}, nilError()}
	}
	// calendar components of concrete instants whose zone is the process's own local zone (the
	// explored one); any other Time (UTC, a zone the harness set up itself) runs the real code
	civil := func(in *Interp, fr *frame, name string, args []value, f func(time.Time) value) value {
		st := args[0].(structure)
		lp, _ := st[2].(*value)
		if lp == nil || lp != in.timeGlobalAddr("localLoc") {
			if _, concrete := nativeTime(structure{st[0], st[1], (*value)(nil)}); !concrete {
				// the real code divides 64-bit second counts by days, years, months: formulas the
				// solvers do not finish (probe: every query runs into its time limit)
				panic(unsupported{"Time." + name + " of a symbolic instant (calendar arithmetic is out of the solvers' reach)"})
			}
			return in.callReal(fr, "time", "Time", name, args)
		}
		t, ok := nativeTime(structure{st[0], st[1], (*value)(nil)})
		if !ok {
			panic(unsupported{"Time." + name + " of a symbolic local instant"})
		}
		if off := in.tzOffset(); off != 0 {
			t = t.In(time.FixedZone("verif", int(off)))
		}
		return f(t)
	}
	externals["(time.Time).Year"] = func(in *Interp, fr *frame, args []value) value {
		return civil(in, fr, "Year", args, func(t time.Time) value { return in.intConst(int64(t.Year())) })
	}
	externals["(time.Time).Month"] = func(in *Interp, fr *frame, args []value) value {
		return civil(in, fr, "Month", args, func(t time.Time) value { return in.intConst(int64(t.Month())) })
	}
	externals["(time.Time).Day"] = func(in *Interp, fr *frame, args []value) value {
		return civil(in, fr, "Day", args, func(t time.Time) value { return in.intConst(int64(t.Day())) })
	}
	externals["(time.Time).Date"] = func(in *Interp, fr *frame, args []value) value {
		return civil(in, fr, "Date", args, func(t time.Time) value {
			y, m, d := t.Date()
			return tuple{in.intConst(int64(y)), in.intConst(int64(m)), in.intConst(int64(d))}
		})
	}
	// time.Date(y, mo, d, h, mi, s, ns, loc) on concrete operands, in UTC or the explored local zone
	externals["time.Date"] = func(in *Interp, fr *frame, args []value) value {
		n := make([]int, 7)
		for i := 0; i < 7; i++ {
			t, ok := args[i].(*Term)
			if !ok || !t.IsConst() {
				panic(unsupported{"time.Date with symbolic operands"})
			}
			n[i] = int(t.SVal())
		}
		lp, _ := args[7].(*value)
		loc := time.UTC
		if lp != nil && lp != in.timeGlobalAddr("utcLoc") && lp != in.timeGlobalAddr("localLoc") {
			return in.callRealFunc(fr, "time", "Date", args)
		}
		isLocal := lp != nil && lp == in.timeGlobalAddr("localLoc")
		if isLocal {
			if off := in.tzOffset(); off != 0 {
				loc = time.FixedZone("verif", int(off))
			}
		}
		t := time.Date(n[0], time.Month(n[1]), n[2], n[3], n[4], n[5], n[6], loc)
		res := in.timeFromNative(t).(structure)
		if isLocal {
			res[2] = lp
		}
		return res
	}
	externals["(time.Time).Format"] = func(in *Interp, fr *frame, args []value) value {
		layout := in.concStr(args[1], "Format layout")
		st := args[0].(structure)
		ext, _ := st[1].(*Term)
		if lp, ok := st[2].(*value); ok && lp != nil && lp == in.timeGlobalAddr("localLoc") && ext != nil {
			// a Time in the local zone: the process time zone is part of the environment and is
			// explored - UTC, a negative and a positive offset. Under a non-zero offset the text
			// is that of the shifted instant (an opaque piece unless it is concrete).
			if orig, ok := in.path.tzShift[ext]; ok {
				// an instant read with ParseInLocation(…, Local): shown in the local zone it reads as
				// the original wall-clock text
				if ph, ok := in.path.dayByExt[orig]; ok && in.path.days[ph].layout == layout {
					return ph
				}
				if t, ok := nativeTime(structure{st[0], orig, (*value)(nil)}); ok {
					return t.Format(layout)
				}
				return &Rope{atoms: []Atom{in.newOpaque("time:"+layout, orig)}}
			}
			if off := in.tzOffset(); off != 0 {
				shifted := in.tb.BVAdd(ext, in.tb.BV(SBV64, uint64(off)))
				if _, isDay := in.path.dayByExt[ext]; isDay && dateOnlyLayout(layout) {
					// midnight UTC shown with a date-only layout: the same calendar day east of
					// Greenwich, the previous day west of it
					if off > 0 {
						shifted = ext
					} else {
						shifted = in.tb.BVAdd(ext, in.tb.BV(SBV64, uint64(0xFFFFFFFFFFFFFFFF-86400+1)))
					}
					if ph, ok := in.path.dayByExt[shifted]; ok && in.path.days[ph].layout == layout {
						return ph
					}
				}
				if t, ok := nativeTime(structure{st[0], shifted, (*value)(nil)}); ok {
					return t.Format(layout)
				}
				return &Rope{atoms: []Atom{in.newOpaque("time:"+layout, shifted)}}
			}
		}
		if ext != nil {
			if ph, ok := in.path.dayByExt[ext]; ok {
				if in.path.days[ph].layout == layout {
					return ph
				}
				return &Rope{atoms: []Atom{in.newOpaque("time:"+layout, ext)}}
			}
		}
		if t, ok := nativeTime(args[0]); ok {
			return t.Format(layout)
		}
		if ext != nil {
			return &Rope{atoms: []Atom{in.newOpaque("time:"+layout, ext)}}
		}
		panic(unsupported{"Time.Format of opaque time"})
	}
	externals["time.runtimeNano"] = func(in *Interp, fr *frame, args []value) value { return in.intConst(1) }
	externals["(*time.ParseError).Error"] = func(in *Interp, fr *frame, args []value) value {
		return "parsing time: cannot parse"
	}
	externals["time.Now"] = func(in *Interp, fr *frame, args []value) value {
		in.path.nowN++
		sec := in.tb.Var(fmt.Sprintf("|now!%d|", in.path.nowN), SBV64)
		in.assume(in.tb.BVSLe(in.tb.BV(SBV64, 1), sec)) // the clock never reads the zero Time
		in.assume(in.tb.BVSLt(sec, in.tb.BV(SBV64, 315537897600)))
		return in.mkTime(in.tb.BV(SBV64, 0), sec)
	}
	// Time.Local / Time.UTC run from their real SSA (they only set the location pointer)
	externals["(time.Time).AddDate"] = func(in *Interp, fr *frame, args []value) value {
		y, m, d := args[1].(*Term), args[2].(*Term), args[3].(*Term)
		if !y.IsConst() || !m.IsConst() || y.SVal() != 0 || m.SVal() != 0 {
			panic(unsupported{"Time.AddDate with years/months"})
		}
		st := args[0].(structure)
		ext := st[1].(*Term)
		n := in.tb.BVAdd(ext, in.tb.BVMul(d, in.tb.BV(SBV64, 86400)))
		return structure{st[0], n, st[2]}
	}
}

// callReal runs the real SSA of method pkg.(recv).name although an external is registered for it.
func (in *Interp) callReal(fr *frame, pkg, recv, name string, args []value) value {
	t := in.findType(pkg, recv)
	fn := in.anyMethod(t, name)
	if fn == nil {
		panic(unsupported{"no method " + recv + "." + name})
	}
	in.skipExt = fn
	return in.call(fr, 0, fn, args)
}

func (in *Interp) callRealFunc(fr *frame, pkg, name string, args []value) value {
	fn := in.findFunc(pkg, name)
	if fn == nil {
		panic(unsupported{"no function " + pkg + "." + name})
	}
	in.skipExt = fn
	return in.call(fr, 0, fn, args)
}

func (in *Interp) timeGlobalAddr(name string) *value {
	for _, p := range in.prog.AllPackages() {
		if p.Pkg.Path() == "time" {
			if g := p.Var(name); g != nil {
				return in.globalAddr(g)
			}
		}
	}
	panic(unsupported{"time." + name + " not found"})
}

// dateOnlyLayout reports whether a time layout shows no clock or zone component.
func dateOnlyLayout(layout string) bool {
	for _, c := range []string{"15", "03", "3", "04", "4", "05", "5", "PM", "pm", "MST", "Z07", "-07", "Z0", ".0", ".9", ",0", ",9"} {
		if strings.Contains(layout, c) {
			return false
		}
	}
	return true
}

// tzOffset returns the offset (seconds east of UTC) of the process's local time zone on this
// path: chosen nondeterministically, once, among UTC, UTC-5h and UTC+13h.
func (in *Interp) tzOffset() int64 {
	if in.path.tzSet {
		return in.path.tz
	}
	in.path.tzSet = true
	switch in.choose(3, "tz") {
	case 1:
		in.path.tz = -5 * 3600
		in.path.labels["tz"] = "UTC-5"
	case 2:
		in.path.tz = 13 * 3600
		in.path.labels["tz"] = "UTC+13"
	default:
		in.path.labels["tz"] = "UTC"
	}
	return in.path.tz
}

func init() {
	// naturaldate.Parse(text, ref): whatever natural-language date the library reads, relative to
	// ref: an arbitrary instant (uninterpreted in the text and ref), without error
	externals["github.com/tj/go-naturaldate.Parse"] = func(in *Interp, fr *frame, args []value) value {
		in.path.nowN++
		sec := in.tb.Var(fmt.Sprintf("|naturaldate!%d|", in.path.nowN), SBV64)
		in.assume(in.tb.BVSLe(in.tb.BV(SBV64, 1), sec))
		in.assume(in.tb.BVSLt(sec, in.tb.BV(SBV64, 315537897600)))
		in.path.labels["naturaldate"] = "a date was read by go-naturaldate relative to the wall clock"
		return tuple{in.mkTime(in.tb.BV(SBV64, 0), sec), nilError()}
	}
}

func init() {
	// Time.Sub on symbolic instants multiplies 64-bit values by 10^9 and branches on overflow
	// checks: out of reach for bit-blasting (probe: unknown at 60 s in all three back ends).
	// Contract stub: an uninterpreted function of the two instants; day distances computed
	// from it are outside every claim.
	externals["(time.Time).Sub"] = func(in *Interp, fr *frame, args []value) value {
		if a, ok := nativeTime(args[0]); ok {
			if b, ok := nativeTime(args[1]); ok {
				return in.tb.BV(SBV64, uint64(a.Sub(b)))
			}
		}
		t, u := args[0].(structure), args[1].(structure)
		return in.tb.UF("tsub", SBV64, t[0].(*Term), t[1].(*Term), u[0].(*Term), u[1].(*Term))
	}
}
