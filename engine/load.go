package main

import (
	"crypto/sha256"
	"fmt"
	"os"
	"path/filepath"
	"sort"
	"strings"

	"golang.org/x/tools/go/packages"
	"golang.org/x/tools/go/ssa"
	"golang.org/x/tools/go/ssa/ssautil"
)

type Loaded struct {
	Prog     *ssa.Program
	Pkgs     []*ssa.Package
	RepoDir  string
	Scratch  string
	Overlay  map[string][]byte
	Env      []string
	ModPaths map[string]string // import path -> dir
}

const rootMod = "github.com/aquilax/hranoprovod-cli/v3"
const cmdMod = "github.com/aquilax/hranoprovod-cli/cmd/hranoprovod-cli/v3"

func verifDir() string {
	if d := os.Getenv("VERIF_DIR"); d != "" {
		return d
	}
	return "/verif"
}

// outDir is where evidence and replay files go ($VERIF_OUT for experiments on mutated copies,
// so that the committed evidence of the unchanged tree is not overwritten).
func outDir() string {
	if d := os.Getenv("VERIF_OUT"); d != "" {
		return d
	}
	return verifDir()
}

func repoDir() string {
	if d := os.Getenv("VERIF_REPO"); d != "" {
		return d
	}
	return "/repo"
}

// makeScratch creates a scratch dir holding a go.work with absolute use paths, so that
// the go tool never writes into the repository.
func makeScratch(repo string) (string, []string, error) {
	dir, err := os.MkdirTemp("", "symgo-")
	if err != nil {
		return "", nil, err
	}
	work := fmt.Sprintf("go 1.17\n\nuse (\n\t%s\n\t%s/cmd/hranoprovod-cli\n)\n", repo, repo)
	if err := os.WriteFile(filepath.Join(dir, "go.work"), []byte(work), 0o644); err != nil {
		return "", nil, err
	}
	if b, err := os.ReadFile(filepath.Join(repo, "go.work.sum")); err == nil {
		os.WriteFile(filepath.Join(dir, "go.work.sum"), b, 0o644)
	}
	env := append(os.Environ(), "GOWORK="+filepath.Join(dir, "go.work"), "GOFLAGS=", "GOPROXY=off", "GOSUMDB=off", "GOTOOLCHAIN=local", "CGO_ENABLED=0")
	return dir, env, nil
}

// harnessOverlay maps harness sources under /verif/harness/<rel>/ into <repo>/<rel>/ and adds
// the runtime shim to every such package.
func harnessOverlay(repo string) (map[string][]byte, map[string]string, error) {
	ov := map[string][]byte{}
	real := map[string]string{}
	hroot := filepath.Join(verifDir(), "harness")
	tmpl, err := os.ReadFile(filepath.Join(hroot, "rt", "zz_verif_rt.go.tmpl"))
	if err != nil {
		return nil, nil, err
	}
	err = filepath.Walk(hroot, func(p string, info os.FileInfo, err error) error {
		if err != nil {
			return err
		}
		if info.IsDir() || !strings.HasSuffix(p, ".go") {
			return nil
		}
		rel, _ := filepath.Rel(hroot, p)
		dir := filepath.Dir(rel)
		if dir == "rt" {
			return nil
		}
		tdir := dir
		if dir == "_root" {
			tdir = "."
		}
		b, err := os.ReadFile(p)
		if err != nil {
			return err
		}
		target := filepath.Join(repo, tdir, "zz_verif_"+filepath.Base(p))
		ov[target] = b
		real[target] = p
		// shim for the package
		pkgName := packageClause(b)
		shim := filepath.Join(repo, tdir, "zz_verif_rt.go")
		if _, ok := ov[shim]; !ok {
			ov[shim] = []byte(strings.Replace(string(tmpl), "package PKG", "package "+pkgName, 1))
			real[shim] = "shim:" + pkgName
		}
		return nil
	})
	if err != nil {
		return ov, real, err
	}
	// the repository's own golden test assets, regenerated from the working tree, for the
	// translator-validation harness in the balance package
	adir := filepath.Join(repo, "cmd/hranoprovod-cli/internal/testutils/testAssets")
	if ents, derr := os.ReadDir(adir); derr == nil {
		var sb strings.Builder
		sb.WriteString("package balance\n\nvar hAssets = map[string]string{\n")
		for _, e := range ents {
			if e.IsDir() {
				continue
			}
			b, rerr := os.ReadFile(filepath.Join(adir, e.Name()))
			if rerr != nil {
				continue
			}
			fmt.Fprintf(&sb, "\t%q: %q,\n", e.Name(), string(b))
		}
		sb.WriteString("}\n")
		target := filepath.Join(repo, "cmd/hranoprovod-cli/internal/balance", "zz_verif_assets.go")
		ov[target] = []byte(sb.String())
		real[target] = "generated:testAssets"
	}
	return ov, real, nil
}

func packageClause(src []byte) string {
	for _, l := range strings.Split(string(src), "\n") {
		l = strings.TrimSpace(l)
		if strings.HasPrefix(l, "package ") {
			return strings.Fields(l)[1]
		}
	}
	return "main"
}

func loadProgram(withCmd bool) (*Loaded, error) {
	repo := repoDir()
	scratch, env, err := makeScratch(repo)
	if err != nil {
		return nil, err
	}
	ov, _, err := harnessOverlay(repo)
	if err != nil {
		return nil, err
	}
	cfg := &packages.Config{
		Mode:    packages.LoadAllSyntax,
		Dir:     repo,
		Env:     env,
		Overlay: ov,
		Tests:   false,
	}
	patterns := []string{"./..."}
	if withCmd {
		patterns = append(patterns, "./cmd/hranoprovod-cli/...")
	}
	pkgs, err := packages.Load(cfg, patterns...)
	if err != nil {
		return nil, err
	}
	nerr := 0
	packages.Visit(pkgs, nil, func(p *packages.Package) {
		for _, e := range p.Errors {
			if nerr < 20 {
				fmt.Fprintf(os.Stderr, "load error: %v\n", e)
			}
			nerr++
		}
	})
	if nerr > 0 {
		return nil, fmt.Errorf("%d package load errors", nerr)
	}
	prog, spkgs := ssautil.AllPackages(pkgs, ssa.InstantiateGenerics)
	prog.Build()
	return &Loaded{Prog: prog, Pkgs: spkgs, RepoDir: repo, Scratch: scratch, Overlay: ov, Env: env}, nil
}

func (l *Loaded) Cleanup() {
	if l.Scratch != "" {
		os.RemoveAll(l.Scratch)
	}
}

// findHarness locates a harness function "relpkg:Func" (relpkg relative to the repo root,
// "." or "_root" for the root package).
func (l *Loaded) findHarness(spec string) (*ssa.Function, error) {
	i := strings.LastIndex(spec, ":")
	if i < 0 {
		return nil, fmt.Errorf("harness spec %q: want relpkg:Func", spec)
	}
	rel, fn := spec[:i], spec[i+1:]
	var path string
	switch {
	case rel == "." || rel == "_root":
		path = rootMod
	case strings.HasPrefix(rel, "cmd/hranoprovod-cli"):
		path = cmdMod + strings.TrimPrefix(rel, "cmd/hranoprovod-cli")
	default:
		path = rootMod + "/" + rel
	}
	for _, p := range l.Prog.AllPackages() {
		if p.Pkg.Path() == path {
			if f := p.Func(fn); f != nil {
				return f, nil
			}
			return nil, fmt.Errorf("function %s not found in %s", fn, path)
		}
	}
	return nil, fmt.Errorf("package %s not loaded", path)
}

// sourceHashes returns sha256 of the repo files that define executed functions.
func (l *Loaded) sourceHashes(funcs map[string]int, prog *ssa.Program) map[string]string {
	files := map[string]bool{}
	for _, p := range prog.AllPackages() {
		for _, m := range p.Members {
			if f, ok := m.(*ssa.Function); ok {
				noteFile(prog, f, funcs, files, l.RepoDir)
			}
		}
	}
	for _, T := range prog.RuntimeTypes() {
		ms := prog.MethodSets.MethodSet(T)
		for i := 0; i < ms.Len(); i++ {
			if f := prog.MethodValue(ms.At(i)); f != nil {
				noteFile(prog, f, funcs, files, l.RepoDir)
			}
		}
	}
	res := map[string]string{}
	var names []string
	for f := range files {
		names = append(names, f)
	}
	sort.Strings(names)
	for _, f := range names {
		b, err := os.ReadFile(f)
		if err != nil {
			if ob, ok := l.Overlay[f]; ok {
				b = ob
			} else {
				continue
			}
		}
		rel, _ := filepath.Rel(l.RepoDir, f)
		res[rel] = fmt.Sprintf("%x", sha256.Sum256(b))
	}
	return res
}

func noteFile(prog *ssa.Program, f *ssa.Function, funcs map[string]int, files map[string]bool, repo string) {
	if funcs[f.String()] == 0 {
		return
	}
	if !f.Pos().IsValid() {
		return
	}
	fn := prog.Fset.Position(f.Pos()).Filename
	if strings.HasPrefix(fn, repo+"/") && !strings.Contains(fn, "zz_verif_") {
		files[fn] = true
	}
}
