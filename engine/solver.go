package main

// SMT solver process driver: one persistent process, definitions issued once
// (global declarations), the path condition mirrored as a stack of push levels.

import (
	"bufio"
	"fmt"
	"io"
	"math"
	"math/big"
	"os/exec"
	"strconv"
	"strings"
	"time"
)

type Verdict int

const (
	Unsat Verdict = iota
	Sat
	Unknown
)

func (v Verdict) String() string { return [...]string{"unsat", "sat", "unknown"}[v] }

type SolverKind int

const (
	KZ3 SolverKind = iota
	KZ3New
	KCVC5
)

func (k SolverKind) String() string { return [...]string{"z3-4.8.12", "z3-5.1.0", "cvc5-1.0"}[k] }

type SolverStats struct {
	Queries  map[string]int // by kind:verdict
	Seconds  float64
	Slowest  float64
	Restarts int
	Errors   int
}

type Solver struct {
	kind      SolverKind
	cmd       *exec.Cmd
	in        io.WriteCloser
	out       *bufio.Reader
	lines     chan string
	defined   map[uint32]bool
	declared  map[string]bool
	stack     []*Term
	timeoutMs int
	Stats     SolverStats
	buf       strings.Builder
	tb        *TermTab
	log       io.Writer
}

func NewSolver(kind SolverKind, tb *TermTab, timeoutMs int) *Solver {
	s := &Solver{kind: kind, tb: tb, timeoutMs: timeoutMs}
	s.Stats.Queries = map[string]int{}
	s.start()
	return s
}

func (s *Solver) start() {
	var cmd *exec.Cmd
	switch s.kind {
	case KZ3:
		cmd = exec.Command("z3", "-in", "-smt2")
	case KZ3New:
		cmd = exec.Command("z3-new", "-in", "-smt2")
	case KCVC5:
		cmd = exec.Command("cvc5", "--incremental", "--lang", "smt2", "--produce-models", fmt.Sprintf("--tlimit-per=%d", s.timeoutMs))
	}
	in, err := cmd.StdinPipe()
	if err != nil {
		panic(err)
	}
	out, err := cmd.StdoutPipe()
	if err != nil {
		panic(err)
	}
	cmd.Stderr = nil
	if err := cmd.Start(); err != nil {
		panic(fmt.Sprintf("cannot start solver %v: %v", s.kind, err))
	}
	s.cmd, s.in, s.out = cmd, in, bufio.NewReaderSize(out, 1<<16)
	s.lines = make(chan string, 256)
	go func(r *bufio.Reader, ch chan string) {
		for {
			l, err := r.ReadString('\n')
			if l != "" {
				ch <- strings.TrimRight(l, "\r\n")
			}
			if err != nil {
				close(ch)
				return
			}
		}
	}(s.out, s.lines)
	s.defined = map[uint32]bool{}
	s.declared = map[string]bool{}
	s.stack = nil
	s.buf.Reset()
	if s.kind == KCVC5 {
		s.buf.WriteString("(set-logic ALL)\n")
	}
	s.buf.WriteString("(set-option :global-declarations true)\n")
	if s.kind != KCVC5 {
		fmt.Fprintf(&s.buf, "(set-option :timeout %d)\n", s.timeoutMs)
	}
}

func (s *Solver) Close() {
	if s.cmd != nil {
		s.in.Close()
		s.cmd.Process.Kill()
		s.cmd.Wait()
		s.cmd = nil
	}
}

func (s *Solver) restart() {
	s.Close()
	s.Stats.Restarts++
	s.start()
}

// Reset forgets everything (used when the term table is reset).
func (s *Solver) Reset() { s.restart() }

func (s *Solver) ensure(t *Term) {
	switch t.op {
	case OpConst:
		return
	case OpVar:
		if !s.declared[t.name] {
			s.declared[t.name] = true
			fmt.Fprintf(&s.buf, "(declare-const %s %s)\n", t.name, t.sort.SMT())
		}
		return
	}
	if s.defined[t.id] {
		return
	}
	for _, a := range t.args {
		s.ensure(a)
	}
	if t.op == OpUF && !strings.HasPrefix(t.name, "smt:") && !s.declared["uf:"+t.name] {
		s.declared["uf:"+t.name] = true
		d := s.tb.ufs[t.name]
		var as []string
		for _, a := range d.args {
			as = append(as, a.SMT())
		}
		fmt.Fprintf(&s.buf, "(declare-fun %s (%s) %s)\n", d.name, strings.Join(as, " "), d.res.SMT())
	}
	s.defined[t.id] = true
	fmt.Fprintf(&s.buf, "(define-fun t%d () %s %s)\n", t.id, t.sort.SMT(), t.Body())
}

// Sync makes the solver's assertion stack equal to pc.
func (s *Solver) Sync(pc []*Term) {
	n := 0
	for n < len(pc) && n < len(s.stack) && pc[n] == s.stack[n] {
		n++
	}
	if d := len(s.stack) - n; d > 0 {
		fmt.Fprintf(&s.buf, "(pop %d)\n", d)
		s.stack = s.stack[:n]
	}
	for _, t := range pc[n:] {
		s.ensure(t)
		fmt.Fprintf(&s.buf, "(push 1)\n(assert %s)\n", t.Ref())
		s.stack = append(s.stack, t)
	}
}

const doneMarker = "<<verif-done>>"

// roundTrip sends the buffered commands and returns the reply lines up to the marker.
func (s *Solver) roundTrip() ([]string, bool) {
	fmt.Fprintf(&s.buf, "(echo \"%s\")\n", doneMarker)
	text := s.buf.String()
	s.buf.Reset()
	if s.log != nil {
		io.WriteString(s.log, text)
	}
	if _, err := io.WriteString(s.in, text); err != nil {
		return nil, false
	}
	var lines []string
	deadline := time.After(time.Duration(s.timeoutMs)*time.Millisecond*2 + 20*time.Second)
	for {
		select {
		case l, ok := <-s.lines:
			if !ok {
				return lines, false
			}
			if strings.Contains(l, doneMarker) {
				return lines, true
			}
			lines = append(lines, l)
		case <-deadline:
			return lines, false
		}
	}
}

// Check decides PC ∧ extra... under the current stack. If wantModel is non-nil and the
// answer is sat, values of those terms are returned.
func (s *Solver) Check(kind string, pc []*Term, extra []*Term, wantModel []*Term) (Verdict, map[*Term]ModelVal) {
	t0 := time.Now()
	s.Sync(pc)
	for _, e := range extra {
		s.ensure(e)
	}
	for _, m := range wantModel {
		s.ensure(m)
	}
	s.buf.WriteString("(push 1)\n")
	for _, e := range extra {
		fmt.Fprintf(&s.buf, "(assert %s)\n", e.Ref())
	}
	s.buf.WriteString("(check-sat)\n")
	lines, ok := s.roundTrip()
	v := Unknown
	bad := !ok
	for _, l := range lines {
		switch {
		case l == "sat":
			v = Sat
		case l == "unsat":
			v = Unsat
		case l == "unknown" || l == "timeout":
			v = Unknown
		case strings.Contains(l, "(error"):
			bad = true
		}
	}
	var model map[*Term]ModelVal
	if !bad && v == Sat && len(wantModel) > 0 {
		s.buf.WriteString("(get-value (")
		for _, m := range wantModel {
			s.buf.WriteString(m.Ref() + " ")
		}
		s.buf.WriteString("))\n")
		ml, ok2 := s.roundTrip()
		if !ok2 {
			bad = true
		} else {
			txt := strings.Join(ml, " ")
			if strings.Contains(txt, "(error") {
				bad = true
			} else {
				model = parseModel(txt, wantModel)
			}
		}
	}
	if bad {
		s.Stats.Errors++
		v = Unknown
		s.restart()
	} else {
		s.buf.WriteString("(pop 1)\n")
	}
	dt := time.Since(t0).Seconds()
	s.Stats.Seconds += dt
	if dt > s.Stats.Slowest {
		s.Stats.Slowest = dt
	}
	s.Stats.Queries[kind+":"+v.String()]++
	return v, model
}

// ---- model values

type ModelVal struct {
	Sort  Sort
	Bits  uint64   // bool / bv / fp bits
	Rat   *big.Rat // real mode
	Valid bool
}

func (m ModelVal) Float64() float64 {
	if m.Rat != nil {
		f, _ := m.Rat.Float64()
		return f
	}
	return math.Float64frombits(m.Bits)
}

type sexp struct {
	atom string
	list []*sexp
}

func parseSexp(s string) []*sexp {
	var stack [][]*sexp
	cur := []*sexp{}
	i := 0
	for i < len(s) {
		c := s[i]
		switch {
		case c == '(':
			stack = append(stack, cur)
			cur = []*sexp{}
			i++
		case c == ')':
			l := &sexp{list: cur}
			if len(stack) == 0 {
				return cur
			}
			cur = stack[len(stack)-1]
			stack = stack[:len(stack)-1]
			cur = append(cur, l)
			i++
		case c == ' ' || c == '\t' || c == '\n':
			i++
		case c == '|':
			j := strings.IndexByte(s[i+1:], '|')
			if j < 0 {
				j = len(s) - i - 1
			}
			cur = append(cur, &sexp{atom: s[i : i+j+2]})
			i += j + 2
		default:
			j := i
			for j < len(s) && s[j] != '(' && s[j] != ')' && s[j] != ' ' && s[j] != '\n' && s[j] != '\t' {
				j++
			}
			cur = append(cur, &sexp{atom: s[i:j]})
			i = j
		}
	}
	return cur
}

func parseBitsLit(a string) (uint64, int, bool) {
	if strings.HasPrefix(a, "#x") {
		v, err := strconv.ParseUint(a[2:], 16, 64)
		return v, 4 * (len(a) - 2), err == nil
	}
	if strings.HasPrefix(a, "#b") {
		v, err := strconv.ParseUint(a[2:], 2, 64)
		return v, len(a) - 2, err == nil
	}
	return 0, 0, false
}

func evalReal(e *sexp) (*big.Rat, bool) {
	if e.list == nil {
		r := new(big.Rat)
		if _, ok := r.SetString(e.atom); ok {
			return r, true
		}
		return nil, false
	}
	if len(e.list) == 0 || e.list[0].list != nil {
		return nil, false
	}
	var args []*big.Rat
	for _, a := range e.list[1:] {
		r, ok := evalReal(a)
		if !ok {
			return nil, false
		}
		args = append(args, r)
	}
	switch e.list[0].atom {
	case "-":
		if len(args) == 1 {
			return new(big.Rat).Neg(args[0]), true
		}
		if len(args) == 2 {
			return new(big.Rat).Sub(args[0], args[1]), true
		}
	case "/":
		if len(args) == 2 && args[1].Sign() != 0 {
			return new(big.Rat).Quo(args[0], args[1]), true
		}
	case "+":
		r := new(big.Rat)
		for _, a := range args {
			r.Add(r, a)
		}
		return r, true
	case "*":
		r := big.NewRat(1, 1)
		for _, a := range args {
			r.Mul(r, a)
		}
		return r, true
	}
	return nil, false
}

func evalModelVal(e *sexp, sort Sort) ModelVal {
	mv := ModelVal{Sort: sort}
	switch sort {
	case SBool:
		if e.atom == "true" {
			mv.Bits, mv.Valid = 1, true
		} else if e.atom == "false" {
			mv.Valid = true
		}
	case SFloat:
		if FloatReal {
			if r, ok := evalReal(e); ok {
				mv.Rat, mv.Valid = r, true
			}
			return mv
		}
		if e.list != nil && len(e.list) >= 1 {
			h := e.list[0]
			if h.atom == "fp" && len(e.list) == 4 {
				sg, _, ok1 := parseBitsLit(e.list[1].atom)
				ex, _, ok2 := parseBitsLit(e.list[2].atom)
				mn, _, ok3 := parseBitsLit(e.list[3].atom)
				if ok1 && ok2 && ok3 {
					mv.Bits, mv.Valid = sg<<63|ex<<52|mn, true
				}
			} else if h.atom == "_" && len(e.list) >= 2 {
				switch e.list[1].atom {
				case "+zero":
					mv.Bits, mv.Valid = 0, true
				case "-zero":
					mv.Bits, mv.Valid = 1<<63, true
				case "+oo":
					mv.Bits, mv.Valid = math.Float64bits(math.Inf(1)), true
				case "-oo":
					mv.Bits, mv.Valid = math.Float64bits(math.Inf(-1)), true
				case "NaN":
					mv.Bits, mv.Valid = math.Float64bits(math.NaN()), true
				}
			}
		}
	default:
		if e.list == nil {
			if v, _, ok := parseBitsLit(e.atom); ok {
				mv.Bits, mv.Valid = v, true
			}
		} else if len(e.list) == 3 && e.list[0].atom == "_" && strings.HasPrefix(e.list[1].atom, "bv") {
			if v, err := strconv.ParseUint(e.list[1].atom[2:], 10, 64); err == nil {
				mv.Bits, mv.Valid = v, true
			}
		}
	}
	return mv
}

func parseModel(txt string, want []*Term) map[*Term]ModelVal {
	res := map[*Term]ModelVal{}
	top := parseSexp(txt)
	if len(top) != 1 || top[0].list == nil {
		return res
	}
	pairs := top[0].list
	for i, p := range pairs {
		if i >= len(want) || p.list == nil || len(p.list) != 2 {
			break
		}
		res[want[i]] = evalModelVal(p.list[1], want[i].sort)
	}
	return res
}
