package main

// text/template: the template text is parsed by the real text/template/parse package (in the
// engine process) and the parse tree is evaluated over engine values: text nodes verbatim,
// field chains on the data (pointers followed, promoted fields of embedded structs found),
// {{if}} with text/template's truth rules, {{range $v := pipeline}} over slices, variables,
// calls of the template's FuncMap entries (the target's own closures, executed from their
// SSA) and the builtin printf (the fmt model). Every construct outside this subset aborts the
// path as unsupported. Output is written piece by piece to the writer, as the library does.

import (
	"fmt"
	"go/types"
	"text/template/parse"
)

type tval struct {
	v value
	t types.Type
}

type tmplExec struct {
	in    *Interp
	fr    *frame
	st    *tmplState
	w     value
	vars  []tmplVar
	err   value // first write error
	funcs map[string]tval
}

type tmplVar struct {
	name string
	val  tval
}

func (in *Interp) funcMapEntries(fm value) map[string]tval {
	res := map[string]tval{}
	m, ok := fm.(*Map)
	if !ok || m == nil {
		return res
	}
	for _, e := range m.entries {
		if !e.live {
			continue
		}
		k, ok := e.key.(string)
		if !ok {
			panic(unsupported{"template.FuncMap with symbolic key"})
		}
		itf, ok := e.val.(iface)
		if !ok || itf.t == nil {
			panic(unsupported{"template.FuncMap entry is not a function value"})
		}
		res[k] = tval{itf.v, itf.t}
	}
	return res
}

func (in *Interp) execTemplate(fr *frame, st *tmplState, w value, data value) value {
	funcs := in.funcMapEntries(st.funcs)
	names := map[string]any{"printf": fmt.Sprintf, "print": fmt.Sprint, "println": fmt.Sprintln, "len": func(any) int { return 0 }}
	for k := range funcs {
		names[k] = func() {}
	}
	trees, err := parse.Parse(st.name, st.text, "", "", names)
	if err != nil {
		panic(unsupported{"template does not parse: " + err.Error()})
	}
	tree := trees[st.name]
	if tree == nil || tree.Root == nil {
		return nilError()
	}
	x := &tmplExec{in: in, fr: fr, st: st, w: w, funcs: funcs}
	dot := tval{}
	if itf, ok := data.(iface); ok {
		dot = tval{itf.v, itf.t}
	} else {
		panic(unsupported{"template data is not an interface value"})
	}
	x.vars = []tmplVar{{"$", dot}}
	x.walk(dot, tree.Root)
	if x.err != nil {
		return x.err
	}
	return nilError()
}

func (x *tmplExec) write(s value) {
	if x.err != nil {
		return
	}
	res := x.in.writeTo(x.fr, x.w, s).(tuple)[1]
	if itf, ok := res.(iface); ok && itf.t != nil {
		x.err = res
	}
}

func (x *tmplExec) walk(dot tval, n parse.Node) {
	if x.err != nil {
		return
	}
	switch n := n.(type) {
	case *parse.ListNode:
		if n == nil {
			return
		}
		for _, c := range n.Nodes {
			x.walk(dot, c)
		}
	case *parse.TextNode:
		x.write(string(n.Text))
	case *parse.CommentNode:
	case *parse.ActionNode:
		v := x.pipeline(dot, n.Pipe)
		if len(n.Pipe.Decl) == 0 {
			x.write(x.printValue(v))
		}
	case *parse.IfNode:
		mark := len(x.vars)
		v := x.pipeline(dot, n.Pipe)
		if x.truth(v) {
			x.walk(dot, n.List)
		} else if n.ElseList != nil {
			x.walk(dot, n.ElseList)
		}
		x.vars = x.vars[:mark]
	case *parse.RangeNode:
		mark := len(x.vars)
		v := x.indirect(x.pipeline(dot, n.Pipe))
		sl, ok := v.t.Underlying().(*types.Slice)
		if !ok {
			panic(unsupported{"template range over " + v.t.String()})
		}
		elems, _ := v.v.([]value)
		if len(elems) == 0 {
			if n.ElseList != nil {
				x.walk(dot, n.ElseList)
			}
			x.vars = x.vars[:mark]
			return
		}
		for i, e := range elems {
			ev := tval{e, sl.Elem()}
			// declared variables: one = element, two = index, element
			switch len(n.Pipe.Decl) {
			case 1:
				x.setVar(n.Pipe.Decl[0].Ident[0], ev, mark)
			case 2:
				x.setVar(n.Pipe.Decl[0].Ident[0], tval{x.in.intConst(int64(i)), types.Typ[types.Int]}, mark)
				x.setVar(n.Pipe.Decl[1].Ident[0], ev, mark)
			}
			x.walk(ev, n.List)
			x.vars = x.vars[:mark+len(n.Pipe.Decl)]
		}
		x.vars = x.vars[:mark]
	default:
		panic(unsupported{fmt.Sprintf("template node %T", n)})
	}
}

func (x *tmplExec) setVar(name string, v tval, mark int) {
	for i := mark; i < len(x.vars); i++ {
		if x.vars[i].name == name {
			x.vars[i].val = v
			return
		}
	}
	x.vars = append(x.vars, tmplVar{name, v})
}

func (x *tmplExec) lookupVar(name string) tval {
	for i := len(x.vars) - 1; i >= 0; i-- {
		if x.vars[i].name == name {
			return x.vars[i].val
		}
	}
	panic(unsupported{"template variable " + name + " undefined"})
}

// pipeline evaluates a pipeline; for a range pipeline with declarations the caller assigns.
func (x *tmplExec) pipeline(dot tval, p *parse.PipeNode) tval {
	if p == nil {
		return tval{}
	}
	var v tval
	have := false
	for _, c := range p.Cmds {
		v = x.command(dot, c, v, have)
		have = true
	}
	if !p.IsAssign {
		// declarations of {{range}} are handled by the caller; {{$x := ...}} declares here
	}
	return v
}

func (x *tmplExec) command(dot tval, c *parse.CommandNode, final tval, hasFinal bool) tval {
	first := c.Args[0]
	switch n := first.(type) {
	case *parse.IdentifierNode:
		var args []tval
		for _, a := range c.Args[1:] {
			args = append(args, x.arg(dot, a))
		}
		if hasFinal {
			args = append(args, final)
		}
		return x.callFunc(n.Ident, args)
	case *parse.PipeNode:
		if len(c.Args) > 1 || hasFinal {
			panic(unsupported{"template: parenthesised pipeline with arguments"})
		}
		return x.pipeline(dot, n)
	}
	if len(c.Args) > 1 || hasFinal {
		panic(unsupported{"template: method or field call with arguments"})
	}
	return x.arg(dot, first)
}

func (x *tmplExec) arg(dot tval, n parse.Node) tval {
	switch n := n.(type) {
	case *parse.DotNode:
		return dot
	case *parse.FieldNode:
		return x.fields(dot, n.Ident)
	case *parse.VariableNode:
		return x.fields(x.lookupVar(n.Ident[0]), n.Ident[1:])
	case *parse.ChainNode:
		return x.fields(x.arg(dot, n.Node), n.Field)
	case *parse.PipeNode:
		return x.pipeline(dot, n)
	case *parse.StringNode:
		return tval{n.Text, types.Typ[types.String]}
	case *parse.NumberNode:
		if n.IsInt {
			return tval{x.in.intConst(n.Int64), types.Typ[types.Int]}
		}
		if n.IsFloat {
			return tval{x.in.tb.Float(n.Float64), types.Typ[types.Float64]}
		}
	case *parse.BoolNode:
		return tval{x.in.tb.Bool(n.True), types.Typ[types.Bool]}
	case *parse.IdentifierNode:
		return x.callFunc(n.Ident, nil)
	}
	panic(unsupported{fmt.Sprintf("template argument %T", n)})
}

// indirect follows pointers (nil pointer: unsupported here - the templates never meet one
// after their {{if}} guards; reported rather than guessed).
func (x *tmplExec) indirect(v tval) tval {
	for {
		pt, ok := v.t.Underlying().(*types.Pointer)
		if !ok {
			return v
		}
		p, ok := v.v.(*value)
		if !ok {
			x.in.checkOpaque(v.v)
			panic(unsupported{"template: pointer representation"})
		}
		if p == nil {
			panic(unsupported{"template: field of or range over a nil pointer"})
		}
		v = tval{load(pt.Elem(), p), pt.Elem()}
	}
}

func (x *tmplExec) fields(v tval, names []string) tval {
	for _, name := range names {
		v = x.indirect(v)
		st, ok := v.t.Underlying().(*types.Struct)
		if !ok {
			panic(unsupported{"template: field ." + name + " of " + v.t.String()})
		}
		sv, ok := v.v.(structure)
		if !ok {
			x.in.checkOpaque(v.v)
			panic(unsupported{"template: struct representation"})
		}
		fv, ok := x.findField(sv, st, name, 0)
		if !ok {
			panic(unsupported{"template: no field " + name + " in " + v.t.String() + " (methods are not supported)"})
		}
		v = fv
	}
	return v
}

func (x *tmplExec) findField(sv structure, st *types.Struct, name string, depth int) (tval, bool) {
	for i := 0; i < st.NumFields(); i++ {
		if f := st.Field(i); f.Name() == name && f.Exported() {
			return tval{sv[i], f.Type()}, true
		}
	}
	if depth > 4 {
		return tval{}, false
	}
	for i := 0; i < st.NumFields(); i++ {
		f := st.Field(i)
		if !f.Embedded() {
			continue
		}
		if est, ok := f.Type().Underlying().(*types.Struct); ok {
			if esv, ok := sv[i].(structure); ok {
				if r, ok := x.findField(esv, est, name, depth+1); ok {
					return r, true
				}
			}
		}
	}
	return tval{}, false
}

// truth implements text/template.IsTrue.
func (x *tmplExec) truth(v tval) bool {
	if v.t == nil {
		return false
	}
	switch u := v.t.Underlying().(type) {
	case *types.Pointer:
		p, ok := v.v.(*value)
		if !ok {
			x.in.checkOpaque(v.v)
			panic(unsupported{"template: truth of pointer representation"})
		}
		return p != nil
	case *types.Slice:
		s, _ := v.v.([]value)
		return len(s) > 0
	case *types.Map:
		m, _ := v.v.(*Map)
		return m.Len() > 0
	case *types.Struct:
		return true
	case *types.Interface:
		itf, ok := v.v.(iface)
		return ok && itf.t != nil
	case *types.Basic:
		switch {
		case u.Info()&types.IsString != 0:
			if s, ok := v.v.(string); ok {
				return len(s) > 0
			}
			return x.in.branch(x.in.tb.Not(x.in.tb.Eq(x.in.strLen(v.v).(*Term), x.in.intConst(0))))
		case u.Info()&types.IsBoolean != 0:
			return x.in.branch(v.v.(*Term))
		case u.Info()&types.IsInteger != 0:
			t := v.v.(*Term)
			return x.in.branch(x.in.tb.Not(x.in.tb.Eq(t, x.in.tb.BV(t.sort, 0))))
		}
	}
	panic(unsupported{"template: truth of " + v.t.String()})
}

func (x *tmplExec) box(v tval) value {
	if v.t == nil {
		return iface{}
	}
	if _, isItf := v.t.Underlying().(*types.Interface); isItf {
		return v.v
	}
	return iface{t: v.t, v: v.v}
}

func (x *tmplExec) callFunc(name string, args []tval) tval {
	switch name {
	case "printf", "print", "println":
		if _, shadowed := x.funcs[name]; !shadowed {
			boxed := make([]value, len(args))
			for i, a := range args {
				boxed[i] = x.box(a)
			}
			switch name {
			case "printf":
				if len(args) == 0 {
					panic(unsupported{"template: printf without format"})
				}
				return tval{x.in.format(x.fr, x.in.concStr(args[0].v, "template printf format"), boxed[1:]), types.Typ[types.String]}
			case "print":
				return tval{x.in.sprint(x.fr, boxed, false), types.Typ[types.String]}
			default:
				return tval{x.in.sprint(x.fr, boxed, true), types.Typ[types.String]}
			}
		}
	}
	f, ok := x.funcs[name]
	if !ok {
		panic(unsupported{"template function " + name})
	}
	sig, ok := f.t.Underlying().(*types.Signature)
	if !ok {
		panic(unsupported{"template function " + name + " is not a function"})
	}
	if sig.Variadic() || sig.Params().Len() != len(args) {
		panic(unsupported{"template function " + name + ": argument count or variadic"})
	}
	vals := make([]value, len(args))
	for i, a := range args {
		pt := sig.Params().At(i).Type()
		if a.t == nil {
			panic(unsupported{"template: nil argument"})
		}
		switch {
		case types.Identical(a.t, pt):
			vals[i] = a.v
		case types.ConvertibleTo(a.t, pt) && isNumericOrString(a.t) && isNumericOrString(pt):
			vals[i] = x.in.conv(pt, a.t, a.v)
		default:
			if _, isItf := pt.Underlying().(*types.Interface); isItf {
				vals[i] = x.box(a)
			} else {
				panic(unsupported{"template function " + name + ": argument type " + a.t.String() + " for " + pt.String()})
			}
		}
	}
	res := x.in.call(x.fr, 0, f.v, vals)
	switch sig.Results().Len() {
	case 1:
		return tval{res, sig.Results().At(0).Type()}
	case 2:
		tu := res.(tuple)
		if e, ok := tu[1].(iface); ok && e.t != nil {
			panic(unsupported{"template function " + name + " returned an error"})
		}
		return tval{tu[0], sig.Results().At(0).Type()}
	}
	panic(unsupported{"template function " + name + ": result count"})
}

func isNumericOrString(t types.Type) bool {
	b, ok := t.Underlying().(*types.Basic)
	return ok && b.Info()&(types.IsNumeric|types.IsString) != 0
}

// printValue renders the value of an action as fmt.Fprint would.
func (x *tmplExec) printValue(v tval) value {
	if v.t == nil {
		return "<no value>"
	}
	if b, ok := v.t.Underlying().(*types.Basic); ok && b.Info()&types.IsString != 0 {
		if _, hasMethods := v.t.(*types.Named); !hasMethods {
			return v.v
		}
	}
	return x.in.sprint(x.fr, []value{x.box(v)}, false)
}
