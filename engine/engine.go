package main

import (
	"fmt"
	"go/token"
	"runtime/debug"
	"sort"
	"strings"
	"sync"
	"sync/atomic"
	"time"

	"golang.org/x/tools/go/ssa"
)

type RunConfig struct {
	Harness          string
	Fn               *ssa.Function
	MaxSteps         int
	MaxDepth         int
	MaxPaths         int
	MapOrderAll      bool
	MapOrderRepoOnly bool // explore visiting orders only for range statements in the repository's own packages
	Twin             bool
	AssertFilter     func(tag string) bool
	CrossCheckEvery  int // 0: never, 1: every discharged assertion, n: every n-th
	ConcreteFmt      bool
	DepthIsViolation bool // call-depth budget exhaustion is a "terminates" violation
	PanicOK          bool // target panics are expected outcomes, not violations
	Bounds           map[string]int
	BoundsSeen       map[string]int
	boundsMu         sync.Mutex
	TimeoutMs        int
	Workers          int
	XSolvers         []SolverKind
	TrackOrder       bool
	RenderMax        int   // >0: fixed-precision float verbs render to 4..RenderMax symbolic bytes
	Prefix           []Dec // run only this path (replay inside the engine)
	Deadline         time.Time
	violationsSeen   int64 // violated assertions so far (all workers)
	unknownSeen      int64 // assertion queries the solver could not decide so far
}

type WorkerResult struct {
	Asserts       map[string]*AssertStat
	Covers        map[string]int
	Violations    []*Violation
	Inconclusive  []string
	FeasUnknown   int
	AssumeDropped int
	CrossChecked  int
	CrossUnknown  int
	Paths         map[string]int
	Steps         int64
	Samples       []PathSample
	ValSamples    []ValSample
	MaxTrace      int
	ShapeTotal    map[uint64]int
	ShapeViol     map[string]int
}

type ValSample struct {
	Inputs []InputModel
	Trace  []Dec
}

type PathSample struct {
	Status    string            `json:"status"`
	Decisions string            `json:"decisions"`
	Labels    map[string]string `json:"labels,omitempty"`
	Witness   []InputModel      `json:"witness,omitempty"`
	PCSize    int               `json:"pc_conjuncts"`
	Steps     int               `json:"steps"`
}

func newWorkerResult() *WorkerResult {
	return &WorkerResult{Asserts: map[string]*AssertStat{}, Covers: map[string]int{}, Paths: map[string]int{}, ShapeTotal: map[uint64]int{}, ShapeViol: map[string]int{}}
}

type Interp struct {
	rangeFixed bool
	executing  bool // inside the interpretation of a path (budget panics are recovered there)
	inGoroutine int
	skipExt    *ssa.Function // callReal: the next call of this function runs its SSA, not its external
	prog          *ssa.Program
	tb            *TermTab
	solver        *Solver
	xsolvers      []*Solver
	xcount        int
	path          *Path
	cfg           *RunConfig
	sched         *Sched
	res           *WorkerResult
	funcs         map[*ssa.Function]int
	stubsUsed     map[string]int
	staticGlobals map[*ssa.Global]*value
	initProblems  map[string]string
	npaths        int
}

// ---- scheduler

type Sched struct {
	mu       sync.Mutex
	cond     *sync.Cond
	work     [][]Dec
	active   int
	started  int
	maxPaths int
	overflow bool
	stop     bool
}

func newSched(maxPaths int) *Sched {
	s := &Sched{maxPaths: maxPaths}
	s.cond = sync.NewCond(&s.mu)
	return s
}

func (s *Sched) push(p []Dec) {
	s.mu.Lock()
	s.work = append(s.work, p)
	s.mu.Unlock()
	s.cond.Signal()
}

func (s *Sched) pop() ([]Dec, bool) {
	s.mu.Lock()
	defer s.mu.Unlock()
	for {
		if s.stop {
			return nil, false
		}
		if n := len(s.work); n > 0 {
			if s.started >= s.maxPaths {
				s.overflow = true
				s.stop = true
				s.cond.Broadcast()
				return nil, false
			}
			p := s.work[n-1]
			s.work = s.work[:n-1]
			s.active++
			s.started++
			return p, true
		}
		if s.active == 0 {
			s.cond.Broadcast()
			return nil, false
		}
		s.cond.Wait()
	}
}

func (s *Sched) done() {
	s.mu.Lock()
	s.active--
	if s.active == 0 && len(s.work) == 0 {
		s.cond.Broadcast()
	}
	s.mu.Unlock()
}

// ---- running

type HarnessResult struct {
	Harness    string
	Bounds     map[string]int
	FloatMode  string
	MapOrder   string
	Res        *WorkerResult
	Funcs      map[string]int
	Stubs      map[string]int
	Solver     map[string]SolverStats
	Wall       float64
	Spec       RunSpec
	FuncObjs   map[*ssa.Function]int
	Overflow   bool
	InitIssues map[string]string
}

func termTabLimit() int { return 300_000 }

func runHarness(prog *ssa.Program, cfg *RunConfig) *HarnessResult {
	t0 := time.Now()
	sched := newSched(cfg.MaxPaths)
	if cfg.Prefix != nil {
		sched.push(cfg.Prefix)
	} else {
		sched.push(nil)
	}
	nw := cfg.Workers
	if nw <= 0 {
		nw = 1
	}
	var wg sync.WaitGroup
	workers := make([]*Interp, nw)
	for w := 0; w < nw; w++ {
		in := &Interp{prog: prog, cfg: cfg, sched: sched, res: newWorkerResult(),
			funcs: map[*ssa.Function]int{}, stubsUsed: map[string]int{}, staticGlobals: map[*ssa.Global]*value{}}
		in.tb = NewTermTab()
		in.solver = NewSolver(KZ3, in.tb, cfg.TimeoutMs)
		for _, k := range cfg.XSolvers {
			in.xsolvers = append(in.xsolvers, NewSolver(k, in.tb, cfg.TimeoutMs))
		}
		workers[w] = in
		wg.Add(1)
		go func(in *Interp) {
			defer wg.Done()
			defer func() {
				in.solver.Close()
				for _, x := range in.xsolvers {
					x.Close()
				}
			}()
			for {
				prefix, ok := sched.pop()
				if !ok {
					return
				}
				if !cfg.Deadline.IsZero() && time.Now().After(cfg.Deadline) {
					in.res.Inconclusive = append(in.res.Inconclusive, "deadline reached before all paths were explored")
					sched.mu.Lock()
					sched.stop = true
					sched.cond.Broadcast()
					sched.mu.Unlock()
					sched.done()
					return
				}
				if atomic.LoadInt64(&cfg.violationsSeen) >= 2000 {
					in.res.Inconclusive = append(in.res.Inconclusive, "exploration stopped early: 2000 violated assertions recorded")
					sched.mu.Lock()
					sched.stop = true
					sched.cond.Broadcast()
					sched.mu.Unlock()
					sched.done()
					return
				}
				if atomic.LoadInt64(&cfg.violationsSeen) > 0 && atomic.LoadInt64(&cfg.unknownSeen) >= 8 {
					// counterexamples are in hand and the solver keeps timing out on the rest:
					// stop here; the unexplored remainder is reported, the violations are replayed
					in.res.Inconclusive = append(in.res.Inconclusive, "exploration stopped early: violations found and 8 queries undecided by the solver")
					sched.mu.Lock()
					sched.stop = true
					sched.cond.Broadcast()
					sched.mu.Unlock()
					sched.done()
					return
				}
				in.runPath(prefix)
				sched.done()
				if in.tb.Size() > termTabLimit() {
					in.resetTerms()
				}
			}
		}(in)
	}
	wg.Wait()

	hr := &HarnessResult{Harness: cfg.Harness, Bounds: map[string]int{}, Res: newWorkerResult(), Funcs: map[string]int{}, Stubs: map[string]int{},
		Solver: map[string]SolverStats{}, InitIssues: map[string]string{}, FuncObjs: map[*ssa.Function]int{}}
	for k, v := range cfg.BoundsSeen {
		hr.Bounds[k] = v
	}
	for k, v := range cfg.Bounds {
		hr.Bounds[k] = v
	}
	if FloatReal {
		hr.FloatMode = "real"
	} else {
		hr.FloatMode = "fp"
	}
	hr.MapOrder = "insertion"
	if cfg.MapOrderAll {
		hr.MapOrder = "all"
		if cfg.MapOrderRepoOnly {
			hr.MapOrder = "repo"
		}
	}
	for _, in := range workers {
		mergeResult(hr.Res, in.res)
		for f, n := range in.funcs {
			hr.Funcs[f.String()] += n
			hr.FuncObjs[f] += n
		}
		for s, n := range in.stubsUsed {
			hr.Stubs[s] += n
		}
		for p, w := range in.initProblems {
			hr.InitIssues[p] = w
		}
		addStats := func(s *Solver) {
			st := hr.Solver[s.kind.String()]
			if st.Queries == nil {
				st.Queries = map[string]int{}
			}
			for k, v := range s.Stats.Queries {
				st.Queries[k] += v
			}
			st.Seconds += s.Stats.Seconds
			if s.Stats.Slowest > st.Slowest {
				st.Slowest = s.Stats.Slowest
			}
			st.Restarts += s.Stats.Restarts
			st.Errors += s.Stats.Errors
			hr.Solver[s.kind.String()] = st
		}
		addStats(in.solver)
		for _, x := range in.xsolvers {
			addStats(x)
		}
	}
	for _, v := range hr.Res.Violations {
		tot := hr.Res.ShapeTotal[v.ShapeKey]
		viol := hr.Res.ShapeViol[fmt.Sprintf("%x|%s", v.ShapeKey, v.Assert)]
		v.OrderDependent = viol < tot
	}
	hr.Overflow = sched.overflow
	if sched.overflow {
		hr.Res.Inconclusive = append(hr.Res.Inconclusive, fmt.Sprintf("path budget (%d) exhausted", cfg.MaxPaths))
	}
	hr.Wall = time.Since(t0).Seconds()
	return hr
}

func mergeResult(dst, src *WorkerResult) {
	for k, v := range src.Asserts {
		d := dst.Asserts[k]
		if d == nil {
			d = &AssertStat{}
			dst.Asserts[k] = d
		}
		d.Reached += v.Reached
		d.Trivial += v.Trivial
		d.Unsat += v.Unsat
		d.Sat += v.Sat
		d.Unknown += v.Unknown
		d.TwinSat += v.TwinSat
	}
	for k, v := range src.Covers {
		dst.Covers[k] += v
	}
	for k, v := range src.Paths {
		dst.Paths[k] += v
	}
	dst.Violations = append(dst.Violations, src.Violations...)
	dst.Inconclusive = append(dst.Inconclusive, src.Inconclusive...)
	dst.FeasUnknown += src.FeasUnknown
	dst.AssumeDropped += src.AssumeDropped
	dst.CrossChecked += src.CrossChecked
	dst.CrossUnknown += src.CrossUnknown
	dst.Steps += src.Steps
	if src.MaxTrace > dst.MaxTrace {
		dst.MaxTrace = src.MaxTrace
	}
	for _, s := range src.Samples {
		if len(dst.Samples) < 6 {
			dst.Samples = append(dst.Samples, s)
		}
	}
	for _, s := range src.ValSamples {
		if len(dst.ValSamples) < 8 {
			dst.ValSamples = append(dst.ValSamples, s)
		}
	}
	for k, v := range src.ShapeTotal {
		dst.ShapeTotal[k] += v
	}
	for k, v := range src.ShapeViol {
		dst.ShapeViol[k] += v
	}
}

func (in *Interp) resetTerms() {
	in.tb = NewTermTab()
	in.solver.tb = in.tb
	in.solver.Reset()
	for _, x := range in.xsolvers {
		x.tb = in.tb
		x.Reset()
	}
	in.staticGlobals = map[*ssa.Global]*value{}
}

func shapeKey(tr []Dec) uint64 {
	h := uint64(14695981039346656037)
	mix := func(x uint64) {
		for i := 0; i < 8; i++ {
			h ^= x & 0xff
			h *= 1099511628211
			x >>= 8
		}
	}
	for _, d := range tr {
		if d.K == "ch:maporder" {
			continue
		}
		mix(uint64(d.V))
		if d.Forced {
			mix(1)
		}
		mix(uint64(len(d.K)))
	}
	return h
}

func decString(tr []Dec) string {
	var sb strings.Builder
	for i, d := range tr {
		if i > 0 {
			sb.WriteByte(' ')
		}
		if d.Forced {
			continue
		}
		k := d.K
		if strings.HasPrefix(k, "ch:") {
			fmt.Fprintf(&sb, "%s=%d", k[3:], d.V)
		} else if strings.HasPrefix(k, "cz:") {
			fmt.Fprintf(&sb, "%s:=%d", k[3:], d.V)
		} else {
			fmt.Fprintf(&sb, "%d", d.V)
		}
	}
	return strings.Join(strings.Fields(sb.String()), " ")
}

func (in *Interp) runPath(prefix []Dec) {
	in.path = in.newPath(prefix)
	in.npaths++
	status, msg := "ok", ""
	func() {
		in.executing = true
		defer func() { in.executing = false }()
		defer func() {
			r := recover()
			in.executing = false
			if r == nil {
				return
			}
			switch r := r.(type) {
			case pathEnd:
				status, msg = "dropped", r.why
			case unsupported:
				status, msg = "unsupported", r.why
				in.res.Inconclusive = append(in.res.Inconclusive, "unsupported: "+r.why)
			case budgetExceeded:
				status, msg = "budget", r.what
				if (r.what == "call depth" || r.what == "steps") && in.cfg.DepthIsViolation {
					status = "violation-depth"
					in.assertStat("terminates").Reached++
					in.assertStat("terminates").Sat++
					_, m := in.solve("model", nil, in.inputTerms())
					why := "call depth budget exhausted (unbounded recursion?)"
					if r.what == "steps" {
						why = "step budget exhausted (a loop that does not end?)"
					}
					in.recordViolation("terminates", m, why)
				} else {
					in.res.Inconclusive = append(in.res.Inconclusive, "budget exceeded: "+r.what)
				}
			case targetPanic:
				status = "panic"
				msg = r.msg
				if msg == "" {
					msg = in.panicString(r.v)
				}
				if !in.cfg.PanicOK && (in.cfg.AssertFilter == nil || in.cfg.AssertFilter("no-panic")) {
					st := in.assertStat("no-panic")
					st.Reached++
					st.Sat++
					v, m := in.solve("model", nil, in.inputTerms())
					if v == Sat {
						if pm := in.presentableModel(in.tb.True); pm != nil {
							m = pm
						}
					}
					in.recordViolation("no-panic", m, msg)
				}
			default:
				status = "error"
				msg = fmt.Sprintf("%v", r)
				in.res.Inconclusive = append(in.res.Inconclusive, "engine error: "+msg+"\n"+firstLines(string(debug.Stack()), 40))
			}
		}()
		in.callSSA(nil, token.NoPos, in.cfg.Fn, nil, nil)
	}()
	if status == "ok" || status == "panic" {
		// implicit "no-panic" assertion discharged on this path
		if status == "ok" && !in.cfg.PanicOK && (in.cfg.AssertFilter == nil || in.cfg.AssertFilter("no-panic")) {
			st := in.assertStat("no-panic")
			st.Reached++
			st.Trivial++
		}
	}
	p := in.path
	in.res.Paths[status]++
	in.res.Steps += int64(p.steps)
	if len(p.trace) > in.res.MaxTrace {
		in.res.MaxTrace = len(p.trace)
	}
	if len(in.res.Samples) < 3 && (status == "ok" || status == "panic") && in.npaths%7 == 1 {
		s := PathSample{Status: status, Decisions: decString(p.trace), Labels: p.labels, PCSize: len(p.pc), Steps: p.steps}
		if v, m := in.solve("witness", nil, in.inputTerms()); v == Sat {
			s.Witness = in.modelInputs(m)
			if len(s.Witness) > 12 {
				s.Witness = s.Witness[:12]
			}
		}
		if len(s.Decisions) > 300 {
			s.Decisions = s.Decisions[:300] + "…"
		}
		in.res.Samples = append(in.res.Samples, s)
	}
	if in.cfg.TrackOrder && (status == "ok" || status == "panic" || status == "violation-depth" || p.nViol > 0) {
		key := shapeKey(p.trace)
		in.res.ShapeTotal[key]++
		seenTag := map[string]bool{}
		for _, v := range in.res.Violations[len(in.res.Violations)-p.nViol:] {
			v.ShapeKey = key
			if !seenTag[v.Assert] {
				seenTag[v.Assert] = true
				in.res.ShapeViol[fmt.Sprintf("%x|%s", key, v.Assert)]++
			}
		}
	}
	if status == "ok" && p.nViol == 0 && len(in.res.ValSamples) < 2 && in.npaths%5 == 2 {
		var m map[*Term]ModelVal
		if pm := in.presentableModel(in.tb.True); pm != nil {
			m = pm
		} else if v, mm := in.solve("witness", nil, in.inputTerms()); v == Sat {
			m = mm
		}
		if m != nil || len(p.inputs) == 0 {
			in.res.ValSamples = append(in.res.ValSamples, ValSample{Inputs: in.modelInputs(m), Trace: append([]Dec(nil), p.trace...)})
		}
	}
	_ = msg
	in.path = nil
}

func (in *Interp) panicString(v value) string {
	if itf, ok := v.(iface); ok {
		if s, ok := itf.v.(string); ok {
			return s
		}
		if r, ok := itf.v.(*Rope); ok {
			return ropeString(r)
		}
		if itf.t != nil {
			return "panic value of type " + itf.t.String()
		}
	}
	return "panic"
}

func firstLines(s string, n int) string {
	ls := strings.Split(s, "\n")
	if len(ls) > n {
		ls = ls[:n]
	}
	return strings.Join(ls, "\n")
}

func sortedKeys[V any](m map[string]V) []string {
	ks := make([]string, 0, len(m))
	for k := range m {
		ks = append(ks, k)
	}
	sort.Strings(ks)
	return ks
}
