package main

// Value representation (modelled on x/tools/go/ssa/interp, with scalars as SMT terms).
//
//   scalars (bool, ints, floats)   *Term
//   string                         string (all bytes concrete) | *Rope
//   pointer                        *value
//   struct / array                 structure / array ([]value)
//   slice                          []value
//   map                            *Map
//   interface                      iface{t, v}
//   func                           *ssa.Function | *closure | *ssa.Builtin
//   tuple                          tuple
//   chan                           *Chan
//   opaque (tolerant init)         opaqueV

import (
	"fmt"
	"go/types"
	"strings"

	"golang.org/x/tools/go/ssa"
)

type value interface{}
type tuple []value
type array []value
type structure []value

type iface struct {
	t types.Type
	v value
}

type closure struct {
	Fn  *ssa.Function
	Env []value
}

type opaqueV struct{ why string }

type Chan struct {
	id  int
	cap int
}

// panics used for control flow inside the executor
type targetPanic struct {
	v   value
	msg string
}
type unsupported struct{ why string }
type pathEnd struct{ why string }

func (u unsupported) String() string { return "unsupported: " + u.why }

// ---- ropes

type Opaque struct {
	verb string
	arg  value // usually *Term
	id   int
}

type Atom struct {
	t  *Term   // BV8 (const or symbolic) when op == nil
	op *Opaque // rendered piece
}

type Rope struct {
	atoms []Atom
}

func (in *Interp) ropeOf(v value) *Rope {
	switch v := v.(type) {
	case string:
		r := &Rope{atoms: make([]Atom, len(v))}
		for i := 0; i < len(v); i++ {
			r.atoms[i].t = in.tb.BV(SBV8, uint64(v[i]))
		}
		return r
	case *Rope:
		return v
	}
	panic(fmt.Sprintf("ropeOf: %T", v))
}

// normStr collapses a fully concrete rope to a Go string.
func normStr(r *Rope) value {
	for _, a := range r.atoms {
		if a.op != nil || !a.t.IsConst() {
			return r
		}
	}
	b := make([]byte, len(r.atoms))
	for i, a := range r.atoms {
		b[i] = byte(a.t.val)
	}
	return string(b)
}

func (r *Rope) hasOpaque() bool {
	for _, a := range r.atoms {
		if a.op != nil {
			return true
		}
	}
	return false
}

func (r *Rope) byteLevel(what string) {
	if r.hasOpaque() {
		panic(unsupported{"byte-level inspection of rendered value in " + what})
	}
}

func (in *Interp) strLen(v value) value {
	switch v := v.(type) {
	case string:
		return in.intConst(int64(len(v)))
	case *Rope:
		if !v.hasOpaque() {
			return in.intConst(int64(len(v.atoms)))
		}
		n := 0
		var t *Term = nil
		for _, a := range v.atoms {
			if a.op == nil {
				n++
			} else {
				l := in.tb.UF(fmt.Sprintf("rlen!%d", a.op.id), SBV64)
				if t == nil {
					t = l
				} else {
					t = in.tb.BVAdd(t, l)
				}
			}
		}
		return in.tb.BVAdd(t, in.tb.BV(SBV64, uint64(n)))
	}
	panic(fmt.Sprintf("strLen: %T", v))
}

func (in *Interp) strConcat(x, y value) value {
	if xs, ok := x.(string); ok {
		if ys, ok := y.(string); ok {
			return xs + ys
		}
	}
	a, b := in.ropeOf(x), in.ropeOf(y)
	r := &Rope{atoms: make([]Atom, 0, len(a.atoms)+len(b.atoms))}
	r.atoms = append(r.atoms, a.atoms...)
	r.atoms = append(r.atoms, b.atoms...)
	return r
}

func strConcreteLen(v value) int {
	switch v := v.(type) {
	case string:
		return len(v)
	case *Rope:
		v.byteLevel("len")
		return len(v.atoms)
	}
	panic(fmt.Sprintf("strConcreteLen: %T", v))
}

func (in *Interp) strSlice(v value, lo, hi int) value {
	switch v := v.(type) {
	case string:
		return v[lo:hi]
	case *Rope:
		v.byteLevel("slice")
		return normStr(&Rope{atoms: v.atoms[lo:hi:hi]})
	}
	panic("strSlice")
}

func (in *Interp) strIndex(v value, i int) *Term {
	switch v := v.(type) {
	case string:
		return in.tb.BV(SBV8, uint64(v[i]))
	case *Rope:
		v.byteLevel("index")
		return v.atoms[i].t
	}
	panic("strIndex")
}

// strEq builds the condition x == y.
func (in *Interp) strEq(x, y value) *Term {
	if xs, ok := x.(string); ok {
		if ys, ok := y.(string); ok {
			return in.tb.Bool(xs == ys)
		}
	}
	a, b := in.ropeOf(x), in.ropeOf(y)
	if !a.hasOpaque() && !b.hasOpaque() {
		if len(a.atoms) != len(b.atoms) {
			return in.tb.False
		}
		c := in.tb.True
		for i := range a.atoms {
			c = in.tb.And(c, in.tb.Eq(a.atoms[i].t, b.atoms[i].t))
			if c == in.tb.False {
				return c
			}
		}
		return c
	}
	// piecewise alignment: opaque against opaque with same verb
	if len(a.atoms) != len(b.atoms) {
		panic(unsupported{"comparison of strings with rendered values of different structure"})
	}
	c := in.tb.True
	for i := range a.atoms {
		p, q := a.atoms[i], b.atoms[i]
		switch {
		case p.op == nil && q.op == nil:
			c = in.tb.And(c, in.tb.Eq(p.t, q.t))
		case p.op != nil && q.op != nil && p.op.verb == q.op.verb:
			if p.op.id == q.op.id {
				continue
			}
			c = in.tb.And(c, in.deepEq(p.op.arg, q.op.arg))
		default:
			panic(unsupported{"comparison of strings with rendered values of different structure"})
		}
		if c == in.tb.False {
			return c
		}
	}
	return c
}

// strLess builds the condition x < y (byte-wise lexicographic).
func (in *Interp) strLess(x, y value) *Term {
	if xs, ok := x.(string); ok {
		if ys, ok := y.(string); ok {
			return in.tb.Bool(xs < ys)
		}
	}
	a, b := in.ropeOf(x), in.ropeOf(y)
	a.byteLevel("<")
	b.byteLevel("<")
	n := len(a.atoms)
	if len(b.atoms) < n {
		n = len(b.atoms)
	}
	// from the end: lt_i = a[i]<b[i] || (a[i]==b[i] && lt_{i+1})
	res := in.tb.Bool(len(a.atoms) < len(b.atoms))
	for i := n - 1; i >= 0; i-- {
		p, q := a.atoms[i].t, b.atoms[i].t
		res = in.tb.Or(in.tb.BVULt(p, q), in.tb.And(in.tb.Eq(p, q), res))
	}
	return res
}

func ropeString(v value) string {
	switch v := v.(type) {
	case string:
		return v
	case *Rope:
		var sb strings.Builder
		for _, a := range v.atoms {
			if a.op != nil {
				sb.WriteString("⟨" + a.op.verb + ":" + valueString(a.op.arg) + "⟩")
			} else if a.t.IsConst() {
				sb.WriteByte(byte(a.t.val))
			} else {
				sb.WriteString("⟨" + a.t.Pretty(2) + "⟩")
			}
		}
		return sb.String()
	}
	return fmt.Sprintf("%v", v)
}

func valueString(v value) string {
	switch v := v.(type) {
	case *Term:
		return v.Pretty(3)
	case string, *Rope:
		return ropeString(v)
	case nil:
		return "nil"
	}
	return fmt.Sprintf("%T", v)
}

// ---- maps

type mapEntry struct {
	key, val value
	live     bool
}

type Map struct {
	keyT    types.Type
	entries []*mapEntry
	n       int
	sidx    map[string]int // index of concrete string keys
}

func (m *Map) Len() int {
	if m == nil {
		return 0
	}
	return m.n
}

// ---- zero values and constants

func (in *Interp) intConst(v int64) *Term { return in.tb.BV(SBV64, uint64(v)) }

func basicSort(k types.BasicKind) (Sort, bool, bool) { // sort, signed, ok
	switch k {
	case types.Bool, types.UntypedBool:
		return SBool, false, true
	case types.Int, types.Int64, types.UntypedInt:
		return SBV64, true, true
	case types.Int8:
		return SBV8, true, true
	case types.Int16:
		return SBV16, true, true
	case types.Int32, types.UntypedRune:
		return SBV32, true, true
	case types.Uint, types.Uint64, types.Uintptr:
		return SBV64, false, true
	case types.Uint8:
		return SBV8, false, true
	case types.Uint16:
		return SBV16, false, true
	case types.Uint32:
		return SBV32, false, true
	case types.Float64, types.UntypedFloat:
		return SFloat, true, true
	}
	return 0, false, false
}

func typeSort(t types.Type) (Sort, bool, bool) {
	if b, ok := t.Underlying().(*types.Basic); ok {
		return basicSort(b.Kind())
	}
	return 0, false, false
}

func (in *Interp) zero(t types.Type) value {
	switch t := t.(type) {
	case *types.Basic:
		if t.Kind() == types.UntypedNil {
			panic("untyped nil has no zero value")
		}
		if t.Info()&types.IsUntyped != 0 {
			t = types.Default(t).(*types.Basic)
		}
		switch t.Kind() {
		case types.String:
			return ""
		case types.UnsafePointer:
			return (*value)(nil)
		case types.Float32:
			return in.tb.Float(0) // float32 modelled as float64; flagged when operated on
		case types.Complex64, types.Complex128:
			return opaqueV{"complex"}
		}
		s, _, ok := basicSort(t.Kind())
		if !ok {
			panic(fmt.Sprint("zero for unexpected type:", t))
		}
		switch s {
		case SBool:
			return in.tb.False
		case SFloat:
			return in.tb.Float(0)
		}
		return in.tb.BV(s, 0)
	case *types.Pointer:
		return (*value)(nil)
	case *types.Array:
		a := make(array, t.Len())
		if t.Len() > 0 {
			z := in.zero(t.Elem())
			if isImmutableValue(z) {
				for i := range a {
					a[i] = z
				}
			} else {
				a[0] = z
				for i := 1; i < len(a); i++ {
					a[i] = in.zero(t.Elem())
				}
			}
		}
		return a
	case *types.Named:
		return in.zero(t.Underlying())
	case *types.Alias:
		return in.zero(types.Unalias(t))
	case *types.Interface:
		return iface{}
	case *types.Slice:
		return []value(nil)
	case *types.Struct:
		s := make(structure, t.NumFields())
		for i := range s {
			s[i] = in.zero(t.Field(i).Type())
		}
		return s
	case *types.Tuple:
		if t.Len() == 1 {
			return in.zero(t.At(0).Type())
		}
		s := make(tuple, t.Len())
		for i := range s {
			s[i] = in.zero(t.At(i).Type())
		}
		return s
	case *types.Chan:
		return (*Chan)(nil)
	case *types.Map:
		return (*Map)(nil)
	case *types.Signature:
		return (*ssa.Function)(nil)
	case *types.TypeParam:
		panic(unsupported{"zero of type parameter"})
	}
	panic(fmt.Sprint("zero: unexpected ", t))
}

func isImmutableValue(v value) bool {
	switch v.(type) {
	case *Term, string, *Rope:
		return true
	}
	return false
}

// load returns a copy of the value of type T stored at addr.
func load(T types.Type, addr *value) value {
	switch T := T.Underlying().(type) {
	case *types.Struct:
		v, ok := (*addr).(structure)
		if !ok {
			return *addr // opaque
		}
		a := make(structure, len(v))
		for i := range a {
			a[i] = load(T.Field(i).Type(), &v[i])
		}
		return a
	case *types.Array:
		v, ok := (*addr).(array)
		if !ok {
			return *addr
		}
		a := make(array, len(v))
		et := T.Elem()
		if _, isAgg := et.Underlying().(*types.Struct); !isAgg {
			if _, isArr := et.Underlying().(*types.Array); !isArr {
				copy(a, v)
				return a
			}
		}
		for i := range a {
			a[i] = load(et, &v[i])
		}
		return a
	default:
		return *addr
	}
}

// store stores v of type T into *addr (aggregates element-wise, keeping interior pointers valid).
func store(T types.Type, addr *value, v value) {
	switch T := T.Underlying().(type) {
	case *types.Struct:
		lhs, ok1 := (*addr).(structure)
		rhs, ok2 := v.(structure)
		if !ok1 || !ok2 {
			*addr = v
			return
		}
		for i := range lhs {
			store(T.Field(i).Type(), &lhs[i], rhs[i])
		}
	case *types.Array:
		lhs, ok1 := (*addr).(array)
		rhs, ok2 := v.(array)
		if !ok1 || !ok2 {
			*addr = v
			return
		}
		et := T.Elem()
		for i := range lhs {
			store(et, &lhs[i], rhs[i])
		}
	default:
		*addr = v
	}
}

// copyVal makes an unaliased copy of aggregate values.
func copyVal(v value) value {
	switch v := v.(type) {
	case structure:
		a := make(structure, len(v))
		for i := range v {
			a[i] = copyVal(v[i])
		}
		return a
	case array:
		a := make(array, len(v))
		for i := range v {
			a[i] = copyVal(v[i])
		}
		return a
	}
	return v
}

// deepEq builds the condition that two values handed to a rendering stub (fmt verb,
// template data, csv field) are indistinguishable: same shape, equal scalars and strings.
func (in *Interp) deepEq(a, b value) *Term {
	tb := in.tb
	switch x := a.(type) {
	case nil:
		return tb.Bool(b == nil)
	case *Term:
		y, ok := b.(*Term)
		if !ok || y.sort != x.sort {
			return tb.False
		}
		return tb.Eq(x, y)
	case string, *Rope:
		switch b.(type) {
		case string, *Rope:
			return in.strEqLoose(x, b)
		}
		return tb.False
	case structure:
		y, ok := b.(structure)
		if !ok || len(y) != len(x) {
			return tb.False
		}
		c := tb.True
		for i := range x {
			c = tb.And(c, in.deepEq(x[i], y[i]))
		}
		return c
	case array:
		y, ok := b.(array)
		if !ok || len(y) != len(x) {
			return tb.False
		}
		c := tb.True
		for i := range x {
			c = tb.And(c, in.deepEq(x[i], y[i]))
		}
		return c
	case []value:
		y, ok := b.([]value)
		if !ok || len(y) != len(x) {
			return tb.False
		}
		c := tb.True
		for i := range x {
			c = tb.And(c, in.deepEq(x[i], y[i]))
		}
		return c
	case *value:
		y, ok := b.(*value)
		if !ok {
			return tb.False
		}
		if x == nil || y == nil {
			return tb.Bool(x == nil && y == nil)
		}
		if x == y {
			return tb.True
		}
		return in.deepEq(*x, *y)
	case iface:
		y, ok := b.(iface)
		if !ok {
			return tb.False
		}
		if x.t == nil || y.t == nil {
			return tb.Bool(x.t == nil && y.t == nil)
		}
		if !types.Identical(x.t, y.t) {
			return tb.False
		}
		return in.deepEq(x.v, y.v)
	case *Map:
		y, ok := b.(*Map)
		return tb.Bool(ok && x == y)
	}
	panic(unsupported{fmt.Sprintf("comparison of rendered values of type %T", a)})
}

// strEqLoose is strEq, except that strings of different structure are unequal instead of unsupported.
func (in *Interp) strEqLoose(x, y value) (res *Term) {
	defer func() {
		if r := recover(); r != nil {
			if _, ok := r.(unsupported); ok {
				res = in.tb.False
				return
			}
			panic(r)
		}
	}()
	return in.strEq(x, y)
}
