package main

import (
	"encoding/json"
	"flag"
	"fmt"
	"os"
	"runtime/pprof"
	"sort"
	"strconv"
	"strings"
	"time"
)

type boundFlags map[string]int

func (b boundFlags) String() string { return fmt.Sprint(map[string]int(b)) }
func (b boundFlags) Set(s string) error {
	i := strings.IndexByte(s, '=')
	if i < 0 {
		return fmt.Errorf("want name=value")
	}
	v, err := strconv.Atoi(s[i+1:])
	if err != nil {
		return err
	}
	b[s[:i]] = v
	return nil
}

func main() {
	if len(os.Args) < 2 {
		fmt.Fprintln(os.Stderr, "usage: symgo run|check|replay ...")
		os.Exit(2)
	}
	switch os.Args[1] {
	case "run":
		os.Exit(cmdRun(os.Args[2:]))
	case "check":
		os.Exit(cmdCheck(os.Args[2:]))
	case "replay":
		os.Exit(cmdReplay(os.Args[2:]))
	default:
		fmt.Fprintln(os.Stderr, "unknown command", os.Args[1])
		os.Exit(2)
	}
}

func cmdRun(args []string) int {
	fs := flag.NewFlagSet("run", flag.ExitOnError)
	h := fs.String("h", "", "harness relpkg:Func")
	fl := fs.String("float", "real", "float encoding: real|fp")
	mo := fs.String("maporder", "all", "map iteration: all|repo|insertion")
	j := fs.Int("j", 16, "workers")
	maxPaths := fs.Int("maxpaths", 2_000_000, "path budget")
	maxSteps := fs.Int("maxsteps", 5_000_000, "step budget per path")
	timeout := fs.Int("timeout", 10000, "solver timeout per query (ms)")
	twin := fs.Bool("twin", true, "vacuity twins")
	x := fs.Int("xcheck", 0, "cross-check every n-th discharged assertion with z3-new and cvc5 (0=off)")
	panicOK := fs.Bool("panicok", false, "target panics are not violations")
	bounds := boundFlags{}
	fs.Var(bounds, "D", "harness bound name=value")
	prof := fs.String("cpuprofile", "", "write cpu profile")
	concFmt := fs.Bool("concretefmt", false, "render constant floats natively (all-concrete validation runs)")
	renderMax := fs.Int("rendermax", 0, "render fixed-precision floats as 4..n symbolic bytes")
	fs.Parse(args)
	if *prof != "" {
		f, _ := os.Create(*prof)
		pprof.StartCPUProfile(f)
		defer pprof.StopCPUProfile()
	}
	FloatReal = *fl == "real"
	withCmd := strings.HasPrefix(*h, "cmd/")
	t0 := time.Now()
	ld, err := loadProgram(withCmd)
	if err != nil {
		fmt.Fprintln(os.Stderr, "load:", err)
		return 2
	}
	defer ld.Cleanup()
	fmt.Fprintf(os.Stderr, "loaded in %.1fs\n", time.Since(t0).Seconds())
	fn, err := ld.findHarness(*h)
	if err != nil {
		fmt.Fprintln(os.Stderr, err)
		return 2
	}
	cfg := &RunConfig{Harness: *h, Fn: fn, MaxSteps: *maxSteps, MaxDepth: 400, MaxPaths: *maxPaths, MapOrderAll: *mo != "insertion", MapOrderRepoOnly: *mo == "repo",
		Twin: *twin, CrossCheckEvery: *x, Bounds: bounds, BoundsSeen: map[string]int{}, TimeoutMs: *timeout, Workers: *j, PanicOK: *panicOK, RenderMax: *renderMax, ConcreteFmt: *concFmt}
	if *x > 0 {
		cfg.XSolvers = []SolverKind{KZ3New, KCVC5}
	}
	hr := runHarness(ld.Prog, cfg)
	printSummary(hr)
	if stepProf != nil {
		type kv struct {
			k string
			v int
		}
		var l []kv
		for k, v := range stepProf {
			l = append(l, kv{k, v})
		}
		sort.Slice(l, func(i, j int) bool { return l[i].v > l[j].v })
		for i := 0; i < len(l) && i < 40; i++ {
			fmt.Printf("  steps %9d %s\n", l[i].v, l[i].k)
		}
	}
	if len(hr.Res.Inconclusive) > 0 {
		return 2
	}
	if len(hr.Res.Violations) > 0 {
		return 1
	}
	return 0
}

func printSummary(hr *HarnessResult) {
	fmt.Printf("harness %s bounds=%v float=%s maporder=%s wall=%.1fs\n", hr.Harness, hr.Bounds, hr.FloatMode, hr.MapOrder, hr.Wall)
	fmt.Printf("  paths: %v steps=%d maxtrace=%d assume-dropped=%d feas-unknown=%d\n", hr.Res.Paths, hr.Res.Steps, hr.Res.MaxTrace, hr.Res.AssumeDropped, hr.Res.FeasUnknown)
	for _, k := range sortedKeys(hr.Res.Asserts) {
		a := hr.Res.Asserts[k]
		fmt.Printf("  assert %-28s reached=%d trivial=%d unsat=%d sat=%d unknown=%d twin=%d\n", k, a.Reached, a.Trivial, a.Unsat, a.Sat, a.Unknown, a.TwinSat)
	}
	for _, k := range sortedKeys(hr.Res.Covers) {
		fmt.Printf("  cover  %-28s %d\n", k, hr.Res.Covers[k])
	}
	for k, s := range hr.Solver {
		fmt.Printf("  solver %s: %v %.1fs slowest=%.2fs restarts=%d errors=%d\n", k, s.Queries, s.Seconds, s.Slowest, s.Restarts, s.Errors)
	}
	seen := map[string]int{}
	for _, m := range hr.Res.Inconclusive {
		seen[m]++
	}
	for m, n := range seen {
		fmt.Printf("  INCONCLUSIVE x%d: %s\n", n, m)
	}
	for i, v := range hr.Res.Violations {
		if i >= 5 {
			fmt.Printf("  ... %d more violations\n", len(hr.Res.Violations)-5)
			break
		}
		b, _ := json.Marshal(v.Inputs)
		fmt.Printf("  VIOLATION assert=%s labels=%v panic=%q decisions=%s inputs=%s\n", v.Assert, v.Labels, v.Panic, decString(v.Trace), b)
	}
	for p, w := range hr.InitIssues {
		fmt.Printf("  init issue %s: %s\n", p, w)
	}
}

// cmdReplay re-runs a recorded counterexample against the natively compiled real code.
func cmdReplay(args []string) int {
	fs := flag.NewFlagSet("replay", flag.ExitOnError)
	prop := fs.String("prop", "", "property id")
	file := fs.String("file", "", "replay json")
	fs.Parse(args)
	b, err := os.ReadFile(*file)
	if err != nil {
		fmt.Fprintln(os.Stderr, err)
		return 2
	}
	var rc replayCase
	if err := json.Unmarshal(b, &rc); err != nil {
		fmt.Fprintln(os.Stderr, err)
		return 2
	}
	ov, _, err := harnessOverlay(repoDir())
	if err != nil {
		fmt.Fprintln(os.Stderr, err)
		return 2
	}
	scratch, env, err := makeScratch(repoDir())
	if err != nil {
		fmt.Fprintln(os.Stderr, err)
		return 2
	}
	ld := &Loaded{RepoDir: repoDir(), Scratch: scratch, Overlay: ov, Env: env}
	defer ld.Cleanup()
	rp := newReplayer(ld, *prop)
	defer rp.cleanup()
	out, _ := rp.run(&rc, *file)
	v := replayVerdict(out)
	if v == "" {
		fmt.Println(out)
		return 2
	}
	fmt.Println("native replay:", v)
	if strings.HasPrefix(v, "reproduced") {
		fmt.Printf("VIOLATION property=%s replay=%s\n", rc.Property, *file)
		return 1
	}
	return 0
}
