package main

import (
	"testing"
	"time"
)

func TestSolverRoundTrip(t *testing.T) {
	for _, k := range []SolverKind{KZ3, KZ3New, KCVC5} {
		tb := NewTermTab()
		s := NewSolver(k, tb, 5000)
		x := tb.Var("x", SBV8)
		t0 := time.Now()
		for i := 0; i < 200; i++ {
			c := tb.Eq(tb.BVAdd(x, tb.BV(SBV8, uint64(i))), tb.BV(SBV8, 7))
			v, m := s.Check("t", nil, []*Term{c}, []*Term{x})
			if v != Sat || !m[x].Valid {
				t.Fatalf("%v: %v %v", k, v, m)
			}
		}
		t.Logf("%v: 200 queries in %v", k, time.Since(t0))
		s.Close()
	}
}
