package main

// Contract stubs: bufio.Writer, encoding/csv.Writer, text/template.

import (
	"fmt"
	"go/types"
)

// bufio.Writer contract: data is pending until Flush (reports shorter than the 4096-byte
// buffer, which is the stated bound); Flush writes all pending data with ONE Write to
// the underlying writer (none if nothing is pending); an error of the underlying writer
// is sticky and returned by every later Write/Flush.
type bufState struct {
	dst     value // io.Writer interface value
	pending []Atom
	err     value // sticky error (iface) or nil
	nbytes  int
}

const bufioSize = 4096

func (in *Interp) bufWrite(fr *frame, st *bufState, data value) value {
	if st.err != nil {
		return tuple{in.intConst(0), st.err}
	}
	r := in.ropeOf(data)
	st.pending = append(st.pending, r.atoms...)
	st.nbytes += len(r.atoms)
	if st.nbytes >= bufioSize {
		panic(unsupported{"more than 4096 bytes pending in bufio.Writer (outside the stated bound)"})
	}
	return tuple{in.strLen(data), nilError()}
}

func (in *Interp) bufFlush(fr *frame, st *bufState) value {
	if st.err != nil {
		return st.err
	}
	if len(st.pending) == 0 {
		return nilError()
	}
	data := normStr(&Rope{atoms: st.pending})
	st.pending = nil
	st.nbytes = 0
	res := in.writeTo(fr, st.dst, data)
	err := res.(tuple)[1]
	if itf, ok := err.(iface); ok && itf.t != nil {
		st.err = err
		return err
	}
	return nilError()
}

func (in *Interp) bufOf(v value) *bufState {
	p, ok := v.(*value)
	if !ok || p == nil {
		panic(targetPanic{msg: "runtime error: invalid memory address or nil pointer dereference (nil *bufio.Writer)"})
	}
	st, ok := in.path.side[p].(*bufState)
	if !ok {
		panic(unsupported{"bufio.Writer not created by bufio.NewWriter"})
	}
	return st
}

// csv.Writer contract: Write(record) appends one record (its fields unchanged) to the
// output; Flush/Error behave like bufio. Quoting is the library's business.
type csvState struct {
	buf *bufState
}

func init() {
	newBuf := func(in *Interp, fr *frame, args []value) value {
		t := in.findType("bufio", "Writer")
		cell := in.zero(t)
		p := &cell
		in.path.side[p] = &bufState{dst: args[0]}
		return p
	}
	externals["bufio.NewWriter"] = newBuf
	externals["bufio.NewWriterSize"] = newBuf
	externals["(*bufio.Writer).Write"] = func(in *Interp, fr *frame, args []value) value {
		return in.bufWrite(fr, in.bufOf(args[0]), in.conv(types.Typ[types.String], types.NewSlice(types.Typ[types.Byte]), args[1]))
	}
	externals["(*bufio.Writer).WriteString"] = func(in *Interp, fr *frame, args []value) value {
		return in.bufWrite(fr, in.bufOf(args[0]), args[1])
	}
	externals["(*bufio.Writer).WriteByte"] = func(in *Interp, fr *frame, args []value) value {
		r := &Rope{atoms: []Atom{{t: args[1].(*Term)}}}
		return in.bufWrite(fr, in.bufOf(args[0]), normStr(r)).(tuple)[1]
	}
	externals["(*bufio.Writer).Flush"] = func(in *Interp, fr *frame, args []value) value {
		return in.bufFlush(fr, in.bufOf(args[0]))
	}

	// encoding/csv
	externals["encoding/csv.NewWriter"] = func(in *Interp, fr *frame, args []value) value {
		t := in.findType("encoding/csv", "Writer")
		z := in.zero(t).(structure)
		z[0] = in.tb.BV(SBV32, ',') // Comma
		var cell value = z
		p := &cell
		in.path.side[p] = &csvState{buf: &bufState{dst: args[0]}}
		return p
	}
	csvOf := func(in *Interp, v value) (*csvState, structure) {
		p, ok := v.(*value)
		if !ok || p == nil {
			panic(targetPanic{msg: "runtime error: invalid memory address or nil pointer dereference (nil *csv.Writer)"})
		}
		st, ok := in.path.side[p].(*csvState)
		if !ok {
			panic(unsupported{"csv.Writer not created by csv.NewWriter"})
		}
		return st, (*p).(structure)
	}
	externals["(*encoding/csv.Writer).Write"] = func(in *Interp, fr *frame, args []value) value {
		st, obj := csvOf(in, args[0])
		if st.buf.err != nil {
			return st.buf.err
		}
		comma := obj[0].(*Term)
		verb := "csvfield"
		if !comma.IsConst() || comma.val != ',' {
			verb = "csvfield!comma=" + comma.Pretty(1)
		}
		var atoms []Atom
		for _, f := range args[1].([]value) {
			in.path.opaqueN++
			atoms = append(atoms, Atom{op: &Opaque{verb: verb, arg: f, id: in.path.opaqueN}})
		}
		in.path.opaqueN++
		atoms = append(atoms, Atom{op: &Opaque{verb: "csvend", arg: nil, id: in.path.opaqueN}})
		return in.bufWrite(fr, st.buf, &Rope{atoms: atoms}).(tuple)[1]
	}
	externals["(*encoding/csv.Writer).Flush"] = func(in *Interp, fr *frame, args []value) value {
		st, _ := csvOf(in, args[0])
		in.bufFlush(fr, st.buf)
		return nil
	}
	externals["(*encoding/csv.Writer).Error"] = func(in *Interp, fr *frame, args []value) value {
		st, _ := csvOf(in, args[0])
		if st.buf.err != nil {
			return st.buf.err
		}
		return nilError()
	}
	// verifCSV: records of a CSV text
	shims["verifCSV"] = func(in *Interp, fr *frame, args []value) value {
		r := in.ropeOf(args[0])
		recs := []value{}
		cur := []value{}
		for _, a := range r.atoms {
			if a.op == nil {
				panic(unsupported{"verifCSV on text not produced by csv.Writer"})
			}
			switch {
			case a.op.verb == "csvend":
				recs = append(recs, cur)
				cur = []value{}
			case a.op.verb == "csvfield":
				cur = append(cur, a.op.arg)
			default:
				// non-standard comma: a reader with the default comma sees one field
				cur = append(cur, fmt.Sprintf("<%s>", a.op.verb))
			}
		}
		return recs
	}

	// text/template: see stubs_tmpl.go (the parse tree is evaluated over engine values)
	externals["text/template.New"] = func(in *Interp, fr *frame, args []value) value {
		t := in.findType("text/template", "Template")
		cell := in.zero(t)
		p := &cell
		in.path.side[p] = &tmplState{name: ropeString(args[0])}
		return p
	}
	tmplOf := func(in *Interp, v value) *tmplState {
		p, ok := v.(*value)
		if !ok || p == nil {
			panic(targetPanic{msg: "runtime error: invalid memory address or nil pointer dereference (nil *template.Template)"})
		}
		st, ok := in.path.side[p].(*tmplState)
		if !ok {
			panic(unsupported{"template not created by template.New"})
		}
		return st
	}
	externals["(*text/template.Template).Funcs"] = func(in *Interp, fr *frame, args []value) value {
		tmplOf(in, args[0]).funcs = args[1]
		return args[0]
	}
	externals["(*text/template.Template).Parse"] = func(in *Interp, fr *frame, args []value) value {
		tmplOf(in, args[0]).text = ropeString(args[1])
		return tuple{args[0], nilError()}
	}
	externals["text/template.Must"] = func(in *Interp, fr *frame, args []value) value {
		if e, ok := args[1].(iface); ok && e.t != nil {
			panic(targetPanic{v: args[1]})
		}
		return args[0]
	}
	externals["(*text/template.Template).Execute"] = func(in *Interp, fr *frame, args []value) value {
		return in.execTemplate(fr, tmplOf(in, args[0]), args[1], args[2])
	}
}

type tmplState struct {
	name  string
	text  string
	funcs value
}
