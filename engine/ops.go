package main

import (
	"fmt"
	"go/constant"
	"go/token"
	"go/types"
	"unicode/utf8"

	"golang.org/x/tools/go/ssa"
)

func (in *Interp) constValue(c *ssa.Const) value {
	if c.Value == nil {
		return in.zero(c.Type())
	}
	t, ok := c.Type().Underlying().(*types.Basic)
	if !ok {
		panic(fmt.Sprintf("constValue: %s", c))
	}
	switch t.Kind() {
	case types.String, types.UntypedString:
		if c.Value.Kind() == constant.String {
			return constant.StringVal(c.Value)
		}
		return string(rune(c.Int64()))
	case types.Float64, types.UntypedFloat:
		if FloatReal {
			// exact rational of the binary64 constant
			return in.tb.Float(c.Float64())
		}
		return in.tb.Float(c.Float64())
	case types.Float32:
		return in.tb.Float(float64(float32(c.Float64())))
	case types.Bool, types.UntypedBool:
		return in.tb.Bool(constant.BoolVal(c.Value))
	case types.Complex64, types.Complex128, types.UntypedComplex:
		return opaqueV{"complex"}
	}
	s, signed, ok := basicSort(t.Kind())
	if !ok {
		panic(fmt.Sprintf("constValue: %s", c))
	}
	if signed {
		return in.tb.BV(s, uint64(c.Int64()))
	}
	return in.tb.BV(s, c.Uint64())
}

func isString(t types.Type) bool {
	b, ok := t.Underlying().(*types.Basic)
	return ok && b.Info()&types.IsString != 0
}

func isFloatT(t types.Type) bool {
	b, ok := t.Underlying().(*types.Basic)
	return ok && b.Info()&types.IsFloat != 0
}

func isSigned(t types.Type) bool {
	b, ok := t.Underlying().(*types.Basic)
	return ok && b.Info()&types.IsInteger != 0 && b.Info()&types.IsUnsigned == 0
}

func (in *Interp) checkOpaque(vs ...value) {
	for _, v := range vs {
		if o, ok := v.(opaqueV); ok {
			panic(unsupported{"operation on opaque value (" + o.why + ")"})
		}
	}
}

// binop evaluates x op y where t is the static type of x.
func (in *Interp) binop(op token.Token, t types.Type, ty types.Type, x, y value) value {
	in.checkOpaque(x, y)
	tb := in.tb
	switch op {
	case token.EQL:
		return in.eqnil(t, x, y)
	case token.NEQ:
		return tb.Not(in.eqnil(t, x, y))
	}
	if isString(t) {
		switch op {
		case token.ADD:
			return in.strConcat(x, y)
		case token.LSS:
			return in.strLess(x, y)
		case token.GTR:
			return in.strLess(y, x)
		case token.LEQ:
			return tb.Not(in.strLess(y, x))
		case token.GEQ:
			return tb.Not(in.strLess(x, y))
		}
		panic(fmt.Sprintf("invalid string op %s", op))
	}
	a, ok1 := x.(*Term)
	b, ok2 := y.(*Term)
	if !ok1 || !ok2 {
		panic(fmt.Sprintf("invalid binary op: %T %s %T", x, op, y))
	}
	if a.sort == SFloat {
		switch op {
		case token.ADD:
			return tb.FAdd(a, b)
		case token.SUB:
			return tb.FSub(a, b)
		case token.MUL:
			return tb.FMul(a, b)
		case token.QUO:
			return tb.FDiv(a, b)
		case token.LSS:
			return tb.FLt(a, b)
		case token.LEQ:
			return tb.FLe(a, b)
		case token.GTR:
			return tb.FLt(b, a)
		case token.GEQ:
			return tb.FLe(b, a)
		}
		panic(fmt.Sprintf("invalid float op %s", op))
	}
	if a.sort == SBool {
		switch op {
		case token.AND, token.LAND:
			return tb.And(a, b)
		case token.OR, token.LOR:
			return tb.Or(a, b)
		}
		panic(fmt.Sprintf("invalid bool op %s", op))
	}
	signed := isSigned(t)
	switch op {
	case token.ADD:
		return tb.BVAdd(a, b)
	case token.SUB:
		return tb.BVSub(a, b)
	case token.MUL:
		return tb.BVMul(a, b)
	case token.QUO, token.REM:
		zero := tb.BV(b.sort, 0)
		if in.branch(tb.Eq(b, zero)) {
			panic(targetPanic{msg: "runtime error: integer divide by zero"})
		}
		if op == token.QUO {
			if signed {
				return tb.BVSDiv(a, b)
			}
			return tb.BVUDiv(a, b)
		}
		if signed {
			return tb.BVSRem(a, b)
		}
		return tb.BVURem(a, b)
	case token.AND:
		return tb.BVAnd(a, b)
	case token.OR:
		return tb.BVOr(a, b)
	case token.XOR:
		return tb.BVXor(a, b)
	case token.AND_NOT:
		return tb.BVAnd(a, tb.BVNot(b))
	case token.SHL, token.SHR:
		if isSigned(ty) {
			if in.branch(tb.BVSLt(b, tb.BV(b.sort, 0))) {
				panic(targetPanic{msg: "runtime error: negative shift amount"})
			}
		}
		w := a.sort.Width()
		var cnt *Term
		var big *Term = tb.False
		if b.sort.Width() > w {
			big = tb.BVULe(tb.BV(b.sort, uint64(w)), b)
			cnt = tb.BVConv(b, a.sort, false)
		} else {
			cnt = tb.BVConv(b, a.sort, false)
		}
		var r, over *Term
		switch {
		case op == token.SHL:
			r, over = tb.BVShl(a, cnt), tb.BV(a.sort, 0)
		case signed:
			r, over = tb.BVAShr(a, cnt), tb.BVAShr(a, tb.BV(a.sort, uint64(w-1)))
		default:
			r, over = tb.BVLShr(a, cnt), tb.BV(a.sort, 0)
		}
		return tb.Ite(big, over, r)
	case token.LSS:
		if signed {
			return tb.BVSLt(a, b)
		}
		return tb.BVULt(a, b)
	case token.LEQ:
		if signed {
			return tb.BVSLe(a, b)
		}
		return tb.BVULe(a, b)
	case token.GTR:
		if signed {
			return tb.BVSLt(b, a)
		}
		return tb.BVULt(b, a)
	case token.GEQ:
		if signed {
			return tb.BVSLe(b, a)
		}
		return tb.BVULe(b, a)
	}
	panic(fmt.Sprintf("invalid binary op: %T %s %T", x, op, y))
}

// eqnil returns the condition x == y for type t.
func (in *Interp) eqnil(t types.Type, x, y value) *Term {
	switch t.Underlying().(type) {
	case *types.Map:
		return in.tb.Bool((x.(*Map) != nil) == (y.(*Map) != nil))
	case *types.Slice:
		return in.tb.Bool((x.([]value) != nil) == (y.([]value) != nil))
	case *types.Signature:
		return in.tb.Bool(isNilFunc(x) == isNilFunc(y))
	}
	return in.equals(t, x, y)
}

func isNilFunc(v value) bool {
	switch v := v.(type) {
	case *ssa.Function:
		return v == nil
	case *closure:
		return v == nil
	case *ssa.Builtin:
		return v == nil
	}
	return false
}

// equals builds the condition x == y under Go's equivalence for type t.
func (in *Interp) equals(t types.Type, x, y value) *Term {
	tb := in.tb
	in.checkOpaque(x, y)
	switch x := x.(type) {
	case *Term:
		yt := y.(*Term)
		if x.sort == SFloat {
			return tb.FEq(x, yt)
		}
		return tb.Eq(x, yt)
	case string, *Rope:
		// strings whose rendered pieces do not line up are reported as different; a
		// counterexample built on that is confirmed natively or ends inconclusive
		return in.strEqLoose(x, y)
	case *value:
		return tb.Bool(x == y.(*value))
	case *Chan:
		return tb.Bool(x == y.(*Chan))
	case structure:
		ys := y.(structure)
		st := t.Underlying().(*types.Struct)
		c := tb.True
		for i := 0; i < st.NumFields(); i++ {
			if st.Field(i).Name() == "_" {
				continue
			}
			c = tb.And(c, in.equals(st.Field(i).Type(), x[i], ys[i]))
		}
		return c
	case array:
		ya := y.(array)
		et := t.Underlying().(*types.Array).Elem()
		c := tb.True
		for i := range x {
			c = tb.And(c, in.equals(et, x[i], ya[i]))
		}
		return c
	case iface:
		yi := y.(iface)
		if x.t == nil || yi.t == nil {
			return tb.Bool(x.t == nil && yi.t == nil)
		}
		if !types.Identical(x.t, yi.t) {
			return tb.False
		}
		return in.equals(x.t, x.v, yi.v)
	case *ssa.Function, *closure:
		panic(targetPanic{msg: "runtime error: comparing uncomparable type " + t.String()})
	}
	panic(fmt.Sprintf("equals: comparing uncomparable type %s (%T)", t, x))
}

func (in *Interp) unop(instr *ssa.UnOp, x value) value {
	tb := in.tb
	switch instr.Op {
	case token.ARROW:
		panic(unsupported{"channel receive"})
	case token.MUL:
		if sp, ok := x.(*symElemPtr); ok {
			return in.iteSelect(sp.elems, sp.idx)
		}
		p, ok := x.(*value)
		if !ok {
			in.checkOpaque(x)
			panic(fmt.Sprintf("deref of %T", x))
		}
		if p == nil {
			panic(targetPanic{msg: "runtime error: invalid memory address or nil pointer dereference"})
		}
		return load(mustDeref(instr.X.Type()), p)
	}
	in.checkOpaque(x)
	a := x.(*Term)
	switch instr.Op {
	case token.SUB:
		if a.sort == SFloat {
			return tb.FNeg(a)
		}
		return tb.BVNeg(a)
	case token.NOT:
		return tb.Not(a)
	case token.XOR:
		return tb.BVNot(a)
	}
	panic(fmt.Sprintf("invalid unary op %s %T", instr.Op, x))
}

func mustDeref(t types.Type) types.Type {
	if p, ok := t.Underlying().(*types.Pointer); ok {
		return p.Elem()
	}
	panic(fmt.Sprintf("mustDeref: %s", t))
}

// conv converts x of type tSrc to tDst.
func (in *Interp) conv(tDst, tSrc types.Type, x value) value {
	in.checkOpaque(x)
	utSrc := tSrc.Underlying()
	utDst := tDst.Underlying()
	tb := in.tb

	switch utSrc := utSrc.(type) {
	case *types.Pointer:
		if b, ok := utDst.(*types.Basic); ok && b.Kind() == types.UnsafePointer {
			return x
		}
		if _, ok := utDst.(*types.Pointer); ok {
			return x
		}
	case *types.Slice:
		// []byte or []rune -> string
		xs := x.([]value)
		switch utSrc.Elem().Underlying().(*types.Basic).Kind() {
		case types.Byte:
			r := &Rope{atoms: make([]Atom, len(xs))}
			for i := range xs {
				r.atoms[i].t = xs[i].(*Term)
			}
			return normStr(r)
		case types.Rune:
			allConst := true
			for i := range xs {
				if !xs[i].(*Term).IsConst() {
					allConst = false
				}
			}
			if allConst {
				rs := make([]rune, len(xs))
				for i := range xs {
					rs[i] = rune(xs[i].(*Term).SVal())
				}
				return string(rs)
			}
			var atoms []Atom
			for i := range xs {
				t := xs[i].(*Term)
				if t.IsConst() {
					atoms = append(atoms, in.litAtoms(string(rune(t.SVal())))...)
					continue
				}
				if !in.branch(tb.BVULt(t, tb.BV(SBV32, 0x80))) {
					panic(unsupported{"string([]rune) with symbolic non-ASCII rune"})
				}
				atoms = append(atoms, Atom{t: tb.BVConv(t, SBV8, false)})
			}
			return normStr(&Rope{atoms: atoms})
		}
	case *types.Basic:
		if utSrc.Kind() == types.UnsafePointer {
			return x
		}
		// string -> []byte, []rune, string
		if utSrc.Info()&types.IsString != 0 {
			switch utDst := utDst.(type) {
			case *types.Slice:
				switch utDst.Elem().Underlying().(*types.Basic).Kind() {
				case types.Byte:
					r := in.ropeOf(x)
					r.byteLevel("[]byte(s)")
					res := make([]value, len(r.atoms))
					for i, a := range r.atoms {
						res[i] = a.t
					}
					return res
				case types.Rune:
					s, ok := x.(string)
					if !ok {
						// symbolic bytes: supported when every byte is ASCII on this path
						r := in.ropeOf(x)
						r.byteLevel("[]rune(s)")
						res := []value{}
						for i := 0; i < len(r.atoms); {
							a := r.atoms[i]
							if a.t.IsConst() {
								// decode a maximal run of concrete bytes natively
								j := i
								var run []byte
								for j < len(r.atoms) && r.atoms[j].t.IsConst() {
									run = append(run, byte(r.atoms[j].t.val))
									j++
								}
								// a trailing incomplete sequence followed by symbolic bytes is not handled
								if j < len(r.atoms) && len(run) > 0 && run[len(run)-1] >= 0x80 && !utf8.Valid(run) {
									panic(unsupported{"[]rune of string mixing symbolic bytes into a multi-byte sequence"})
								}
								for _, rn := range string(run) {
									res = append(res, tb.BV(SBV32, uint64(rn)))
								}
								i = j
								continue
							}
							if !in.branch(tb.BVULt(a.t, tb.BV(SBV8, 0x80))) {
								panic(unsupported{"[]rune of symbolic string with non-ASCII byte"})
							}
							res = append(res, tb.BVConv(a.t, SBV32, false))
							i++
						}
						return res
					}
					var res []value
					for _, r := range s {
						res = append(res, tb.BV(SBV32, uint64(r)))
					}
					if res == nil {
						res = []value{}
					}
					return res
				}
			case *types.Basic:
				if utDst.Info()&types.IsString != 0 {
					return x
				}
			}
			break
		}
		a, ok := x.(*Term)
		if !ok {
			break
		}
		dstB, ok := utDst.(*types.Basic)
		if !ok {
			break
		}
		// integer -> string
		if utSrc.Info()&types.IsInteger != 0 && dstB.Info()&types.IsString != 0 {
			if !a.IsConst() {
				// single byte if < RuneSelf
				if in.branch(tb.BVULt(tb.BVConv(a, SBV64, isSigned(tSrc)), tb.BV(SBV64, utf8.RuneSelf))) {
					return &Rope{atoms: []Atom{{t: tb.BVConv(a, SBV8, false)}}}
				}
				panic(unsupported{"string(rune) of symbolic non-ASCII rune"})
			}
			return string(rune(a.SVal()))
		}
		if dstB.Kind() == types.UnsafePointer {
			panic(unsupported{"uintptr to unsafe.Pointer"})
		}
		ds, _, ok := basicSort(dstB.Kind())
		if dstB.Kind() == types.Float32 {
			ds, ok = SFloat, true
		}
		if !ok {
			break
		}
		switch {
		case a.sort == SFloat && ds == SFloat:
			return a
		case a.sort == SFloat:
			return tb.FloatToInt(a, ds)
		case ds == SFloat:
			return tb.IntToFloat(a, isSigned(tSrc))
		case a.sort == SBool && ds == SBool:
			return a
		default:
			return tb.BVConv(a, ds, isSigned(tSrc))
		}
	}
	panic(unsupported{fmt.Sprintf("conversion %s -> %s (%T)", tSrc, tDst, x)})
}

func (in *Interp) typeAssert(instr *ssa.TypeAssert, itf iface) value {
	var v value
	err := ""
	if itf.t == nil {
		err = fmt.Sprintf("interface conversion: interface is nil, not %s", instr.AssertedType)
	} else if idst, ok := instr.AssertedType.Underlying().(*types.Interface); ok {
		v = itf
		if meth, _ := types.MissingMethod(itf.t, idst, true); meth != nil {
			err = fmt.Sprintf("interface conversion: %v is not %v: missing method %s", itf.t, idst, meth.Name())
		}
	} else if types.Identical(itf.t, instr.AssertedType) {
		v = itf.v
	} else {
		err = fmt.Sprintf("interface conversion: interface is %s, not %s", itf.t, instr.AssertedType)
	}
	if err != "" {
		if !instr.CommaOk {
			panic(targetPanic{msg: err})
		}
		return tuple{in.zero(instr.AssertedType), in.tb.False}
	}
	if instr.CommaOk {
		return tuple{v, in.tb.True}
	}
	return v
}
