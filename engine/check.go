package main

// `symgo check -prop C01 -tier quick`: run the property's harness configurations, replay
// counterexamples natively, consult known findings, write evidence, set the exit code.

import (
	"bufio"
	"encoding/json"
	"flag"
	"fmt"
	"os"
	"path/filepath"
	"sort"
	"strings"
	"time"
)

type RunSpec struct {
	Harness   string         `json:"harness"`
	Float     string         `json:"float"`    // real | fp
	MapOrder  string         `json:"maporder"` // all | repo | insertion
	Bounds    map[string]int `json:"bounds"`
	Tiers     []string       `json:"tiers"`
	Asserts   []string       `json:"asserts"` // assertion tags (prefix match) owned by this property; empty = all
	PanicOK   bool           `json:"panic_ok"`
	DepthViol bool           `json:"depth_is_violation"`
	MaxPaths  int            `json:"max_paths"`
	MaxSteps  int            `json:"max_steps"`
	TimeoutMs int            `json:"timeout_ms"`
	XCheck    int            `json:"xcheck"`
	Covers    []string       `json:"must_cover"`
	Note      string         `json:"note"`
	ConcFmt   bool           `json:"concrete_fmt"`
	RenderMax int            `json:"render_max"`
}

type PropSpec struct {
	Property    string    `json:"property"`
	Runs        []RunSpec `json:"runs"`
	Assumptions []string  `json:"assumptions"`
	Outside     []string  `json:"outside_claim"`
	Stubs       []string  `json:"stubs"`
}

type Finding struct {
	ID             string            `json:"id"`
	Property       string            `json:"property"`
	Harness        string            `json:"harness,omitempty"`
	Assert         string            `json:"assert"`
	Labels         map[string]string `json:"labels,omitempty"`
	OrderDependent *bool             `json:"order_dependent,omitempty"`
	What           string            `json:"what"`
	Fixed          string            `json:"fixed,omitempty"`
}

func loadFindings() []Finding {
	var res []Finding
	f, err := os.Open(filepath.Join(verifDir(), "known_findings.jsonl"))
	if err != nil {
		return nil
	}
	defer f.Close()
	sc := bufio.NewScanner(f)
	sc.Buffer(make([]byte, 1<<20), 1<<20)
	for sc.Scan() {
		l := strings.TrimSpace(sc.Text())
		if l == "" || strings.HasPrefix(l, "#") || strings.HasPrefix(l, "fixed:") {
			continue
		}
		var fd Finding
		if json.Unmarshal([]byte(l), &fd) == nil && fd.Fixed == "" {
			res = append(res, fd)
		}
	}
	return res
}

func (f *Finding) matches(prop string, v *Violation) bool {
	if f.Property != prop || f.Assert != v.Assert {
		return false
	}
	if f.Harness != "" && f.Harness != v.Harness {
		return false
	}
	for k, want := range f.Labels {
		if v.Labels[k] != want {
			return false
		}
	}
	if f.OrderDependent != nil && *f.OrderDependent != v.OrderDependent {
		return false
	}
	return true
}

func inTier(tiers []string, tier string) bool {
	if len(tiers) == 0 {
		return true
	}
	for _, t := range tiers {
		if t == tier {
			return true
		}
	}
	return false
}

func violationKey(v *Violation) string {
	ks := make([]string, 0, len(v.Labels))
	for k, x := range v.Labels {
		ks = append(ks, k+"="+x)
	}
	sort.Strings(ks)
	return v.Harness + "|" + v.Assert + "|" + strings.Join(ks, ",") + fmt.Sprintf("|od=%v", v.OrderDependent)
}

func cmdCheck(args []string) int {
	fs := flag.NewFlagSet("check", flag.ExitOnError)
	prop := fs.String("prop", "", "property id")
	tier := fs.String("tier", "quick", "quick|thorough")
	j := fs.Int("j", 16, "workers")
	noReplay := fs.Bool("noreplay", false, "skip native replay (development only; result is then inconclusive on violations)")
	only := fs.String("only", "", "run only harnesses containing this substring (development)")
	fs.Parse(args)
	if t := os.Getenv("VERIF_TIER"); t == "quick" || t == "thorough" {
		*tier = t
	}
	seed := int64(0)
	if s := os.Getenv("VERIF_SEED"); s != "" {
		fmt.Sscan(s, &seed)
	}
	t0 := time.Now()
	specB, err := os.ReadFile(filepath.Join(verifDir(), "properties.d", *prop+".json"))
	if err != nil {
		fmt.Fprintln(os.Stderr, "no spec for property:", err)
		return 2
	}
	var spec PropSpec
	if err := json.Unmarshal(specB, &spec); err != nil {
		fmt.Fprintln(os.Stderr, "bad spec:", err)
		return 2
	}
	withCmd := false
	for _, r := range spec.Runs {
		if strings.HasPrefix(r.Harness, "cmd/") {
			withCmd = true
		}
	}
	ld, err := loadProgram(withCmd)
	if err != nil {
		fmt.Printf("INCONCLUSIVE property=%s reason=load failed: %v\n", *prop, err)
		return 2
	}
	defer ld.Cleanup()
	loadS := time.Since(t0).Seconds()

	var results []*HarnessResult
	var inconclusive []string
	for _, r := range spec.Runs {
		if !inTier(r.Tiers, *tier) {
			continue
		}
		if *only != "" && !strings.Contains(r.Harness, *only) {
			continue
		}
		fn, err := ld.findHarness(r.Harness)
		if err != nil {
			inconclusive = append(inconclusive, err.Error())
			continue
		}
		FloatReal = r.Float != "fp"
		cfg := &RunConfig{Harness: r.Harness, Fn: fn, MaxSteps: 5_000_000, MaxDepth: 400, MaxPaths: 3_000_000,
			MapOrderAll: r.MapOrder != "insertion", MapOrderRepoOnly: r.MapOrder == "repo", Twin: true, Bounds: r.Bounds, BoundsSeen: map[string]int{},
			TimeoutMs: 10000, Workers: *j, PanicOK: r.PanicOK, DepthIsViolation: r.DepthViol, ConcreteFmt: r.ConcFmt, TrackOrder: true, RenderMax: r.RenderMax}
		if cfg.Bounds == nil {
			cfg.Bounds = map[string]int{}
		}
		cfg.Deadline = time.Now().Add(15 * time.Minute)
		if *tier == "thorough" {
			cfg.Deadline = time.Now().Add(90 * time.Minute)
			cfg.TimeoutMs = 60000
			cfg.CrossCheckEvery = 1
			cfg.XSolvers = []SolverKind{KZ3New, KCVC5}
		} else {
			cfg.CrossCheckEvery = 200 // encoding smoke test on a sample of discharged assertions
			cfg.XSolvers = []SolverKind{KZ3New, KCVC5}
		}
		if r.XCheck != 0 {
			cfg.CrossCheckEvery = r.XCheck
			if r.XCheck < 0 {
				cfg.CrossCheckEvery = 0
				cfg.XSolvers = nil
			}
		}
		if r.MaxPaths > 0 {
			cfg.MaxPaths = r.MaxPaths
		}
		if r.MaxSteps > 0 {
			cfg.MaxSteps = r.MaxSteps
		}
		if r.TimeoutMs > 0 {
			cfg.TimeoutMs = r.TimeoutMs
		}
		if len(r.Asserts) > 0 {
			owned := r.Asserts
			cfg.AssertFilter = func(tag string) bool {
				for _, p := range owned {
					if strings.HasPrefix(tag, p) {
						return true
					}
				}
				return false
			}
		}
		hr := runHarness(ld.Prog, cfg)
		hr.Spec = r
		results = append(results, hr)
		fmt.Fprintf(os.Stderr, "[%s] %s %v float=%s: paths=%v wall=%.1fs\n", *prop, r.Harness, hr.Bounds, hr.FloatMode, hr.Res.Paths, hr.Wall)
		// vacuity
		for tag, a := range hr.Res.Asserts {
			if cfg.AssertFilter != nil && !cfg.AssertFilter(tag) {
				continue
			}
			if a.Reached == 0 {
				inconclusive = append(inconclusive, fmt.Sprintf("%s: assertion %s never reached (vacuous)", r.Harness, tag))
			}
		}
		for _, c := range r.Covers {
			if hr.Res.Covers[c] == 0 {
				inconclusive = append(inconclusive, fmt.Sprintf("%s: cover point %s never reached (vacuous)", r.Harness, c))
			}
		}
		if hr.Res.Paths["ok"]+hr.Res.Paths["panic"] == 0 {
			inconclusive = append(inconclusive, fmt.Sprintf("%s: no path completed (vacuous)", r.Harness))
		}
		seen := map[string]bool{}
		for _, m := range hr.Res.Inconclusive {
			m = firstLines(m, 1)
			if !seen[m] {
				seen[m] = true
				inconclusive = append(inconclusive, r.Harness+": "+m)
			}
		}
	}
	if len(results) == 0 && len(inconclusive) == 0 {
		inconclusive = append(inconclusive, "no harness configuration for tier "+*tier)
	}

	// ---- violations: group, replay, classify
	findings := loadFindings()
	type group struct {
		v     *Violation
		alts  []*Violation // further representatives, tried when the first does not reproduce
		hr    *HarnessResult
		count int
	}
	groups := map[string]*group{}
	var order []string
	for _, hr := range results {
		for _, v := range hr.Res.Violations {
			k := violationKey(v)
			if g, ok := groups[k]; ok {
				g.count++
				// prefer the shortest trace as representative; keep a few others as well
				if len(v.Trace) < len(g.v.Trace) {
					g.alts = append(g.alts, g.v)
					g.v = v
				} else if len(g.alts) < 40 && g.count%7 == 0 {
					g.alts = append(g.alts, v)
				}
			} else {
				groups[k] = &group{v: v, hr: hr, count: 1}
				order = append(order, k)
			}
		}
	}
	sort.Strings(order)
	rp := newReplayer(ld, *prop)
	defer rp.cleanup()
	var violationLines, knownLines []string
	reproduced, notReproduced := 0, 0
	knownHit := map[string]bool{}
	for _, k := range order {
		g := groups[k]
		var fd *Finding
		for i := range findings {
			if findings[i].matches(*prop, g.v) {
				fd = &findings[i]
				break
			}
		}
		if *noReplay {
			inconclusive = append(inconclusive, fmt.Sprintf("violation of %s in %s not replayed (-noreplay)", g.v.Assert, g.v.Harness))
			continue
		}
		path, ok, detail := rp.replayViolation(g.hr, g.v)
		for i := 0; !ok && i < len(g.alts) && i < 6; i++ {
			// the model of another path of the same group may be realisable natively
			path, ok, detail = rp.replayViolation(g.hr, g.alts[len(g.alts)-1-i])
		}
		if !ok {
			notReproduced++
			inconclusive = append(inconclusive, fmt.Sprintf("counterexample for %s in %s did not reproduce natively (%s); engine or stub defect, replay=%s", g.v.Assert, g.v.Harness, detail, path))
			continue
		}
		reproduced++
		if fd != nil {
			if !knownHit[fd.ID] {
				knownHit[fd.ID] = true
				knownLines = append(knownLines, fmt.Sprintf("KNOWN-FINDING: property=%s %s [%s; %d path(s); replay=%s]", *prop, fd.What, fd.ID, g.count, path))
			}
			continue
		}
		violationLines = append(violationLines, fmt.Sprintf("VIOLATION property=%s replay=%s assert=%s harness=%s labels=%v paths=%d", *prop, path, g.v.Assert, g.v.Harness, g.v.Labels, g.count))
	}

	// ---- translator validation: witness models of non-violating paths must run clean natively
	validated, valFailed := 0, 0
	if !*noReplay {
		for _, hr := range results {
			n, bad, msgs := rp.validateSamples(hr)
			validated += n
			valFailed += bad
			for _, m := range msgs {
				inconclusive = append(inconclusive, m)
			}
		}
	}

	wall := time.Since(t0).Seconds()
	ev := buildEvidence(*prop, *tier, seed, &spec, ld, results, inconclusive, len(violationLines), len(knownLines), reproduced, notReproduced, validated, valFailed, loadS, wall)
	evPath := filepath.Join(outDir(), "evidence", *prop+".json")
	os.MkdirAll(filepath.Dir(evPath), 0o755)
	b, _ := json.MarshalIndent(ev, "", " ")
	os.WriteFile(evPath, append(b, '\n'), 0o644)

	for _, l := range knownLines {
		fmt.Println(l)
	}
	if len(violationLines) > 0 {
		for _, l := range violationLines {
			fmt.Println(l)
		}
		return 1
	}
	if len(inconclusive) > 0 {
		for i, m := range inconclusive {
			if i >= 12 {
				fmt.Printf("INCONCLUSIVE property=%s reason=... and %d more\n", *prop, len(inconclusive)-12)
				break
			}
			fmt.Printf("INCONCLUSIVE property=%s reason=%s\n", *prop, m)
		}
		return 2
	}
	fmt.Printf("OK property=%s tier=%s harness-runs=%d wall=%.1fs\n", *prop, *tier, len(results), wall)
	return 0
}

func buildEvidence(prop, tier string, seed int64, spec *PropSpec, ld *Loaded, results []*HarnessResult, inconclusive []string,
	nviol, nknown, reproduced, notReproduced, validated, valFailed int, loadS, wall float64) map[string]interface{} {
	states, transitions := 0, int64(0)
	obligations, discharged, trivial, satN, unknownN := 0, 0, 0, 0, 0
	funcs := map[string]int{}
	stubs := map[string]int{}
	var samples []interface{}
	var runs []interface{}
	solverS := 0.0
	queries := map[string]int{}
	slowest := 0.0
	crossChecked := 0
	for _, hr := range results {
		for _, n := range hr.Res.Paths {
			states += n
		}
		transitions += hr.Res.Steps
		perAssert := map[string]interface{}{}
		for tag, a := range hr.Res.Asserts {
			obligations += a.Unsat + a.Sat + a.Unknown
			discharged += a.Unsat
			trivial += a.Trivial
			satN += a.Sat
			unknownN += a.Unknown
			perAssert[tag] = a
		}
		for f, n := range hr.Funcs {
			funcs[f] += n
		}
		for s, n := range hr.Stubs {
			stubs[s] += n
		}
		for _, s := range hr.Res.Samples {
			samples = append(samples, map[string]interface{}{"harness": hr.Harness, "bounds": hr.Bounds, "path": s})
		}
		sv := map[string]interface{}{}
		for name, st := range hr.Solver {
			sv[name] = map[string]interface{}{"queries": st.Queries, "seconds": round3(st.Seconds), "slowest_s": round3(st.Slowest), "restarts": st.Restarts, "errors": st.Errors}
			solverS += st.Seconds
			for k, n := range st.Queries {
				queries[name+":"+k] += n
			}
			if st.Slowest > slowest {
				slowest = st.Slowest
			}
		}
		crossChecked += hr.Res.CrossChecked
		runs = append(runs, map[string]interface{}{
			"harness": hr.Harness, "bounds": hr.Bounds, "float_mode": hr.FloatMode, "map_order": hr.MapOrder,
			"paths_by_status": hr.Res.Paths, "ssa_instructions": hr.Res.Steps, "assume_dropped": hr.Res.AssumeDropped,
			"asserts": perAssert, "covers": hr.Res.Covers, "solver": sv, "wall_s": round3(hr.Wall),
			"violating_paths": len(hr.Res.Violations), "feasibility_unknown": hr.Res.FeasUnknown,
			"cross_checked": hr.Res.CrossChecked, "cross_unknown": hr.Res.CrossUnknown, "longest_decision_vector": hr.Res.MaxTrace,
			"note": hr.Spec.Note, "owned_asserts": hr.Spec.Asserts,
		})
	}
	var repoFuncs, libFuncs []string
	seenF := map[string]bool{}
	for _, hr := range results {
		for f := range hr.FuncObjs {
			name := f.String()
			if seenF[name] {
				continue
			}
			seenF[name] = true
			file := ""
			if f.Pos().IsValid() {
				file = ld.Prog.Fset.Position(f.Pos()).Filename
			} else if f.Parent() != nil && f.Parent().Pos().IsValid() {
				file = ld.Prog.Fset.Position(f.Parent().Pos()).Filename
			}
			switch {
			case strings.Contains(file, "zz_verif_"):
			case strings.HasPrefix(file, ld.RepoDir+"/"):
				repoFuncs = append(repoFuncs, name)
			default:
				libFuncs = append(libFuncs, name)
			}
		}
	}
	sort.Strings(repoFuncs)
	sort.Strings(libFuncs)
	var stubList []string
	for s := range stubs {
		stubList = append(stubList, s)
	}
	sort.Strings(stubList)
	if len(samples) == 0 {
		samples = append(samples, "no completed path")
	}
	if len(samples) > 8 {
		samples = samples[:8]
	}
	violations := nviol
	cov := map[string]interface{}{
		"states":                         states,
		"transitions":                    transitions,
		"traces_validated_against_impl":  validated,
		"samples":                        samples,
		"obligations":                    obligations,
		"discharged":                     discharged,
		"discharged_structurally":        trivial,
		"solver_sat":                     satN,
		"solver_unknown":                 unknownN,
		"evaluations":                    states,
		"distinct_nontrivial":            states,
		"rule":                           "one evaluation = one symbolic path of a harness (a shape: harness choices, map visiting orders, solver-pruned branches); on each path all numeric/byte inputs are solver variables. Paths are distinct by construction (distinct decision vectors); all are non-trivial in that each reaches at least one assertion or is dropped by an explicit assumption (counted separately under assume_dropped).",
		"exhaustive":                     len(inconclusive) == 0,
		"explanation":                    "bounded symbolic execution of the repository's SSA (regenerated from the working tree on this run); every assertion on every path decided by z3 (unsat = holds for all values on that path) or structurally (identical hash-consed terms); counterexamples replayed natively before being reported",
		"functions_encoded_repo":         repoFuncs,
		"functions_encoded_stdlib_real":  len(libFuncs),
		"stubs_and_intrinsics_used":      stubList,
		"source_sha256":                  ld.sourceHashes(funcs, ld.Prog),
		"runs":                           runs,
		"solver_seconds":                 round3(solverS),
		"slowest_query_s":                round3(slowest),
		"queries":                        queries,
		"cross_checked_queries":          crossChecked,
		"inconclusive":                   inconclusive,
		"known_findings_reported":        nknown,
		"counterexamples_reproduced":     reproduced,
		"counterexamples_not_reproduced": notReproduced,
		"validation_failures":            valFailed,
		"load_and_ssa_build_s":           round3(loadS),
		"checker_cmd":                    "z3 -in (4.8.12); thorough tier re-decides every discharged assertion with z3-new 5.1.0 and cvc5 1.0",
		"trusted_base":                   []string{"golang.org/x/tools/go/ssa v0.29.0 (SSA construction)", "symgo executor (/verif/engine)", "z3 4.8.12", "stubs listed under stubs_and_intrinsics_used"},
		"outside_claim":                  spec.Outside,
	}
	assumptions := append([]string{}, spec.Assumptions...)
	assumptions = append(assumptions, spec.Stubs...)
	return map[string]interface{}{
		"property_id": prop,
		"tier":        tier,
		"seed":        seed,
		"level":       "model_checking",
		"coverage":    cov,
		"assumptions": assumptions,
		"wall_s":      round3(wall),
		"violations":  violations,
	}
}

func round3(f float64) float64 { return float64(int64(f*1000+0.5)) / 1000 }
