#!/usr/bin/env python3
"""Regenerates MANIFEST.json from properties.d/*.json and manifest_meta.json."""
import json, os, glob
here = os.path.dirname(os.path.abspath(__file__))
meta = json.load(open(os.path.join(here, "manifest_meta.json")))
props = [json.loads(l)["id"] for l in open(os.path.join(here, "properties.jsonl"))]
checks, na = [], []
for pid in props:
    spec = os.path.join(here, "properties.d", pid + ".json")
    m = meta["checks"].get(pid)
    if os.path.exists(spec) and m and not m.get("disabled"):
        checks.append({
            "property_id": pid,
            "quick_cmd": "./check %s quick" % pid,
            "thorough_cmd": "./check %s thorough" % pid,
            "evidence_file": "/verif/evidence/%s.json" % pid,
            "replay_cmd_template": "./check %s --replay {path}" % pid,
            "engine": "symgo",
            "level_claimed": {"category": "model_checking", "text": m["text"], "design_ref": m.get("design_ref", "DESIGN.md §7 " + pid)},
            "level_note": m["note"],
            "technique": m.get("technique", "bounded symbolic execution of the Go SSA of the real code; SMT (z3, cross-checked with z3 5.1 and cvc5) decides every assertion on every path"),
        })
    else:
        na.append({"property_id": pid, "reason": meta["not_applicable"].get(pid, "check not built yet in this session; no claim is made")})
man = {
    "version": 1,
    "setup_cmd": "cd /verif/engine && GOFLAGS=-mod=mod GOPROXY=off GOSUMDB=off GOTOOLCHAIN=local go build -o /verif/bin/symgo .",
    "hooks": meta["hooks"],
    "engines": [{"name": "symgo", "path": "/verif/engine", "serves_properties": [c["property_id"] for c in checks],
                 "kind_free_text": "symbolic executor for go/ssa written for this task: loads /repo's working tree with harness overlays, executes the real functions on symbolic inputs, emits SMT-LIB2 to a persistent z3 (z3-new and cvc5 as cross-checkers), replays counterexamples natively with go test -overlay"}],
    "checks": checks,
    "notes": meta["notes"],
    "not_applicable": na,
}
json.dump(man, open(os.path.join(here, "MANIFEST.json"), "w"), indent=1)
print("checks:", [c["property_id"] for c in checks], "n/a:", [x["property_id"] for x in na])
