#!/usr/bin/env python3
"""Generates properties.d/<id>.json (harness configurations, bounds per tier, assertion ownership)."""
import json, os
here = os.path.dirname(os.path.abspath(__file__))
CMD = "cmd/hranoprovod-cli/internal/"
Q, T, QT = ["quick"], ["thorough"], ["quick", "thorough"]

def run(h, tiers, bounds=None, fl="fp", mo="insertion", owned=None, cover=None, note="", **kw):
    r = {"harness": h, "float": fl, "maporder": mo, "bounds": bounds or {}, "tiers": tiers}
    if owned: r["asserts"] = owned
    if cover: r["must_cover"] = cover
    if note: r["note"] = note
    r.update(kw)
    return r

PF = "strconv.ParseFloat: uninterpreted function of the token bytes (value, acceptance) with library facts: a token containing a blank, ':', '\"', '#', '/', ',' or a byte outside the alphabet of Go float literals is rejected; a plain decimal [+-]digits[.digits] is accepted"
REALSTD = "bufio.Scanner, strings.*, unicode/utf8, sort.*, time.Time comparison methods: executed from their real SSA (leaves bytealg.IndexByte/Index/Count, strings.Builder internals, reflectlite.Swapper: intrinsics with the Go semantics)"
FMT = "fmt.*printf/Fprint*/Sprint*/Errorf: literal text verbatim, %s of strings inlined and padded, numeric verbs of non-constant operands become opaque rendered pieces R(verb, value); two pieces are equal iff verb and value are equal"
BUFIO = "bufio.Writer: data pending until Flush; Flush performs one Write of everything pending (none if nothing is pending); an error of the underlying writer is sticky (reports shorter than the 4096-byte buffer: stated bound)"
CSVW = "encoding/csv.Writer: Write(record) appends one record with its fields unchanged; Flush/Error as bufio (RFC 4180 quoting is the library's contract, not re-verified)"
TMPL = "text/template: the template text is parsed by the real text/template/parse package and the parse tree is evaluated by the executor over its own values (text, field chains, if, range, variables, FuncMap calls executed from the target's SSA, printf through the fmt model); constructs outside this subset abort the path as unsupported"
TIME = "time.Parse: headings produced by verifDay map to symbolic instants 2021-01-01 + d days (d a solver variable) under the layout they were written in and fail under any other layout; concrete text uses the real function. Time.Format returns the heading text for such instants under the same layout, an opaque piece otherwise. Time.AddDate(0,0,n) adds n*86400 s (UTC). Time.Sub is uninterpreted"
DATA = "recipe, food and element names are drawn from a small ordered universe where the code uses names only through ==, < and map keys (data independence); the parser, which inspects bytes, gets symbolic bytes"
REAL = "float64 encoded as Real in the runs marked float=real: rounding, overflow to Inf, NaN and -0 are outside those runs"

specs = {}

specs["C01"] = {"runs": [
    run("resolver:Harness_C01_resolve", QT, {"K": 3, "M": 1, "L": 1, "tight": 1, "prelude": 1}, "real", "all", cover=["acyclic-book", "nesting>=2"], note="every book under the default limit 10 and under the tightest limit that admits it (longest chain + 1), alone and after a failing resolution of a cyclic book with the same recipe names (sync.Pool modelled as a LIFO free list)"),
    run("resolver:Harness_C01_resolve", QT, {"K": 3, "M": 2, "L": 1}, "real", "all", cover=["acyclic-book", "nesting>=2"], note="9261 books of 3 recipes x <=2 ingredients over {3 recipes, 1 leaf}, 873 acyclic, x 3! visiting orders x 2 entry points"),
    run("resolver:Harness_C01_resolve", QT, {"K": 2, "M": 3, "L": 2}, "real", "all", cover=["acyclic-book"], note="repeated ingredients, two basic elements"),
    run("resolver:Harness_C01_resolve", QT, {"K": 2, "M": 3, "L": 3, "oddleaves": 1, "lateapi": 1}, "real", "all", cover=["acyclic-book"], note="element names that share a prefix followed by '/' in one and by a lower byte in the others (sort order); third entry point: a Resolver created before the last recipe is pushed"),
    run("resolver:Harness_C01_idempotent", QT, {"K": 3, "M": 2, "L": 1}, "fp", "all", note="IEEE-754 encoding: re-resolving through the other entry point is bit-identical"),
    run("resolver:Harness_C01_resolve", T, {"K": 3, "M": 2, "L": 3}, "real", "all", cover=["acyclic-book", "nesting>=2"]),
    run("resolver:Harness_C01_resolve", T, {"K": 3, "M": 2, "L": 1, "tight": 1}, "real", "all", cover=["acyclic-book", "nesting>=2"]),
    run("cmd/hranoprovod-cli:Harness_app_maxdepth", QT, {}, owned=["maxdepth:book-nested-less-deeply-than-the-limit-resolves"], cover=["ran"], note="whole application: a book nested 3 deep resolves in nine commands whenever the limit in force (flag > environment > configuration file > default) is 4 or more"),
    run("cmd/hranoprovod-cli:Harness_app_pipeline", QT, {"command": 4}, "real", cover=["ran"], note="whole application, `csv database-resolved`: the book as text through the real parser and resolver (nested recipes, repeated ingredients, forward and backward references) against path sums"),
    run("cmd/hranoprovod-cli:Harness_app_pipeline", QT, {"command": 5}, "real", cover=["ran"], note="whole application, `report element-total x`"),
    run("resolver:Harness_C01_resolve", T, {"K": 4, "M": 1, "L": 2}, "real", "all", cover=["acyclic-book", "nesting>=2"], note="chains of depth 4; 4! visiting orders"),
 ], "assumptions": [REAL, DATA, "depth limit N = 10 (the default), and the tightest admissible limit in the runs marked tight"],
 "outside_claim": ["books larger than the stated K/M/L", "IEEE rounding of the amounts", "nesting deeper than 4 (limit-1 = 9 is not reached)"],
 "stubs": ["fmt.Errorf: contract stub (non-nil error carrying the text)"]}

specs["C11"] = {"runs": [
    run("resolver:Harness_C11_depth", QT, {"K": 2, "M": 2, "L": 1, "Nmax": 3}, "fp", "all", cover=["deep-or-cyclic", "chain==N", "chain==N-1"], depth_is_violation=True, note="every graph on 2 recipes x <=2 ingredients, N in 1..3"),
    run("resolver:Harness_C11_depth", QT, {"K": 3, "M": 1, "L": 1, "Nmax": 4}, "fp", "all", cover=["deep-or-cyclic", "chain==N", "chain==N-1"], depth_is_violation=True, note="every chain and cycle of length <= 3, N in 1..4, 3! orders"),
    run("resolver:Harness_C11_depth", QT, {"K": 2, "M": 2, "L": 1, "Nmax": 3, "prelude": 1}, "fp", "all", cover=["deep-or-cyclic"], depth_is_violation=True, note="the same outcome after an earlier failing resolution of another book with the same recipe names in the same process"),
    run("resolver:Harness_C05_resolve_twice", QT, {"K": 3, "M": 1, "L": 1, "Nmax": 4}, "fp", "all", owned=["same-error-status"], note="the outcome is the same under two independently chosen visiting orders"),
    run("cmd/hranoprovod-cli:Harness_app_maxdepth", QT, {}, owned=["maxdepth:"], cover=["ran"], note="whole application: N = 1..4, 10 from flag, environment and configuration file, nine commands"),
    run("cmd/hranoprovod-cli:Harness_app_cyclic_book", QT, {}, owned=["cyclic-book-is-error", "terminates"], cover=["ran"], depth_is_violation=True, note="whole application: cyclic books under --maxdepth unset/-1/0/1/2"),
    run("resolver:Harness_C11_depth", T, {"K": 3, "M": 2, "L": 1, "Nmax": 4}, "fp", "all", depth_is_violation=True),
    run("resolver:Harness_C11_depth", T, {"K": 4, "M": 1, "L": 1, "Nmax": 5}, "fp", "all", depth_is_violation=True),
 ], "assumptions": [DATA, "N in 1..5 only; larger limits are argued by the uniformity of the level test, not checked", "a reference to a basic element counts as one reference of the chain (the reading under which the unchanged code is right for N = 1)"],
 "outside_claim": ["N in 6..9 and 11, 12"], "stubs": ["fmt.Errorf: contract stub"]}

C04own = ["record-", "entry-", "note-", "no-error-reported", "callback-error-not-returned", "no-panic"]
q, t = {"n": 3, "m": 2, "a": 3}, {"n": 4, "m": 3, "a": 4, "layouts": 1}
names = {0: "blank", 1: "comment", 2: "heading", 3: "note", 4: "entry", 5: "bad-syntax", 6: "bad-number", 7: "arbitrary"}
def ls(cls, tiers, b, owned):
    bb = {"class": cls}; bb.update(b)
    return run("parser:Harness_parse_line_step", tiers, bb, "fp", "insertion", owned=owned, cover=["parsed"], note="class " + names[cls])
specs["C04"] = {"runs": [ls(c, Q, q, C04own) for c in range(5)] + [ls(c, T, t, C04own) for c in range(5)] + [
    run("parser:Harness_parse_generated", Q, {"R": 2, "E": 2, "n": 2, "m": 2}, owned=C04own, cover=["parsed"]),
    run("parser:Harness_parse_generated", T, {"R": 2, "E": 2, "n": 3, "m": 2, "layouts": 1}, owned=C04own, cover=["parsed"]),
    run("parser:Harness_parse_long_ok", QT, {}, owned=C04own, cover=["long"], max_steps=60000000, note="concrete supplement: a comment, note, entry name or heading of 4094..8193 and 65000 bytes is one line (sizes around the block sizes of buffered readers)"),
    run("parser:Harness_parse_reentrant", QT, {}, owned=C04own, cover=["parsed"], note="a parse started from inside the callback of another parse does not disturb the outer one (no package-level parser state)"),
    run("parser:Harness_parse_file_equals_stream", QT, {}, owned=C04own, cover=["parsed"], note="ParseFileCallback on a file = ParseStreamCallback on its content: empty, one byte, two bytes, no final newline, byte order mark (virtual file system)"),
    run("parser:Harness_parse_numbers_concrete", QT, {}, cover=["parsed"], note="concrete supplement: 36 number tokens through the parser vs strconv.ParseFloat, bit for bit (the symbolic runs treat ParseFloat as uninterpreted)"),
 ], "assumptions": [PF + ". The claim is that exactly the number token reaches ParseFloat and its result reaches the entry.",
    "names: first and last byte a letter, digit or non-ASCII byte; inner bytes anything except CR/LF; numbers over [0-9+-.eE] ending in a digit or '.'",
    "per-line inductive step: the loop iterations of the parser communicate only through (open record, line number); step-correctness from every loop state composes to whole files (DESIGN.md §7 C04), sampled by the generated-file harness"],
 "outside_claim": ["lines longer than the stated bounds", "correct rounding inside strconv.ParseFloat", "note keys/texts whose end bytes are non-ASCII (unicode white-space trimming)"],
 "stubs": [REALSTD]}

specs["C02"] = {"runs": [
    run(CMD + "reporter:Harness_day_item", Q, {"E": 2, "bookshapes": 4}, "real", cover=["item"], note="book shapes {x},{x,y},{y},{} per recipe (the empty recipe included)"),
    run(CMD + "register:Harness_old_reg_reporter", Q, {"E": 2}, "real", cover=["printed"]),
    run(CMD + "reporter:Harness_day_item", QT, {"E": 1, "bookshapes": 4, "earlier": 1}, "real", cover=["item"], note="a day reported after another day: what it shows does not depend on the earlier day (state kept between days)"),
    run("cmd/hranoprovod-cli:Harness_app_period", QT, {"R": 2, "command": 0}, cover=["ran"], note="whole application, `register`: every selected day in file order (symbolic dates in any order, period given globally / on the sub-command / both)"),
    run("cmd/hranoprovod-cli:Harness_app_pipeline", Q, {"command": 0, "posbook": 1, "E": 1, "shapes": 4}, "real", cover=["ran"], note="whole application, `register --use-old-reg-reporter`: book and log as text with symbolic values through the real parser and resolver (nested recipes, repeated ingredients, forward/backward references), two days, against the reference model; book amounts assumed positive"),
    run("cmd/hranoprovod-cli:Harness_app_pipeline", QT, {'command': 9, 'posbook': 1, 'E': 1, 'shapes': 3}, "real", cover=["ran"], note='the same through the default template (rendered by the template interpreter)'),
    run("cmd/hranoprovod-cli:Harness_app_pipeline", QT, {'command': 0, 'posbook': 1, 'zeroamt': 1, 'E': 1, 'shapes': 2}, "real", cover=["ran"], note='one ingredient with the amount 0 exactly (an element reached only through it is still listed, with 0.00)'),
    run("cmd/hranoprovod-cli:Harness_app_pipeline", T, {"command": 0, "posbook": 0, "E": 2, "shapes": 4}, "real", cover=["ran"], max_paths=2000000),
    run("_root:Harness_merge_duplicates", QT, {"E": 5}, "real", cover=["merged"], note="every repetition pattern of <=5 entries over three foods"),
    run(CMD + "reporter:Harness_day_item", T, {"E": 3, "bookshapes": 4}, "real", cover=["item"]),
    run(CMD + "register:Harness_old_reg_reporter", T, {"E": 3}, "real", cover=["printed"]),
 ], "assumptions": [REAL, DATA, "the register of several days is the per-day register repeated in file order (decided by C12's composition check)"],
 "outside_claim": ["%10.2f rendering (digits)", "days with more than E entries"],
 "stubs": [FMT, BUFIO, TMPL]}

specs["C03"] = {"runs": [
    run(CMD + "balance:Harness_balance_modes", Q, {"F": 2}, "real", cover=["printed"], note="every set of <=2 category paths from the 14 paths over {a,b} of depth <=3, each food logged once or twice, 3 display modes"),
    run(CMD + "balance:Harness_balance_modes", T, {"F": 3}, "real", cover=["printed"], note="all 469 path sets"),
    run(CMD + "balance:Harness_balance_modes", QT, {"F": 2, "deep": 1}, "real", cover=["printed"], note="category paths of up to nine segments (six paths, every set of <=2)"),
    run(CMD + "balance:Harness_golden_concrete", QT, {}, "fp", owned=["golden-"], cover=["golden-balance"], concrete_fmt=True, note="translator validation: the executor, all-concrete, reproduces the repository's five golden balance outputs byte for byte from testAssets/{food,log}.yaml"),
    run(CMD + "balance:Harness_balance_single", Q, {"F": 2, "catalogue": 6}, "real", cover=["printed"], note="--single-element X in all three modes: foods defining X (any amount incl. 0), defined without X, undefined"),
    run("_root:Harness_merge_duplicates", QT, {"E": 5}, "real", cover=["merged"], note="the quantities of a day's repeated foods are conserved by the merge that feeds every report: every repetition pattern of <=5 entries over three foods"),
    run("_root:Harness_merge_many", QT, {"K": 20}, "real", cover=["merged"], note="a day of 20 distinct foods with one of them repeated after any number of the others (210 shapes, symbolic quantities): the merge keeps every quantity also when its list has grown past 8 and 16 entries"),
    run(CMD + "balance:Harness_balance_single", T, {"F": 3, "catalogue": 14}, "real", cover=["printed"]),
    run(CMD + "balance:Harness_reports_agree", Q, {"D": 1, "E": 2}, "real", owned=["balance-grand-total=sum-of-top-rows", "balance-rows-well-formed", "balance-grand-total-labelled"], note="--single-element: grand total = sum of the top-level rows"),
    run("cmd/hranoprovod-cli:Harness_app_pipeline", QT, {'command': 2}, "real", cover=["ran"], note='whole application, `balance -s x` on book and log text: grand total = sum over logged foods of quantity x resolved amount (through the real parser and resolver)'),

 ], "assumptions": [REAL, "path segments over the alphabet {a,b}: the tree uses names only through map keys, sorting and splitting on '/'"],
 "outside_claim": ["text layout beyond '<amount> | <indent><label>'", "names with empty segments (a//b)", "the amount of a directly logged element's row under --single-element (asserted in C07)"],
 "stubs": [FMT, BUFIO]}

units = ["report-unresolved", "report-quantity", "report-quantity-desc", "report-totals", "register-group-by-food", "balance", "register", "register-old", "csv-database-resolved", "report-element-total", "balance-single-element", "balance-collapse", "balance-single-element-collapse-last"]
fpunits = [3, 4, 5, 10, 12]
specs["C05"] = {"runs": [run(CMD + "balance:Harness_pure_function", Q, {"unit": u, "E": 2}, "real", "all", cover=["ran-twice"], note=units[u]) for u in range(13)] +
    [run(CMD + "balance:Harness_pure_function", Q, {"unit": u, "E": 3, "unitamounts": 1, "bookshapes": 2}, "fp", "all", cover=["ran-twice"], note=units[u] + ": IEEE-754 encoding, three entries, recipe amounts 1: a sum accumulated in map order differs in the last bit") for u in fpunits] +
    [run(CMD + "balance:Harness_pure_function", T, {"unit": u, "E": 3}, "real", "all", cover=["ran-twice"], note=units[u]) for u in list(range(8)) + [10, 11, 12]] +
    [run(CMD + "balance:Harness_pure_function", T, {"unit": u, "E": 4, "unitamounts": 1, "bookshapes": 2}, "fp", "all", cover=["ran-twice"], note=units[u] + ": IEEE-754 encoding") for u in fpunits] + [
    run("resolver:Harness_C05_resolve_twice", QT, {"K": 3, "M": 1, "L": 1, "Nmax": 4}, "fp", "all", cover=["ran-twice"]),
    run("cmd/hranoprovod-cli:Harness_app_sequence", QT, {}, "fp", cover=["ran-twice"], note="whole application: a command gives the same output when run first and when run again after another command with other flags (14 variants, all ordered pairs): no state kept between runs"),
    run("cmd/hranoprovod-cli:Harness_app_stats_twice", QT, {}, "fp", cover=["ran-twice"], note="`stats` twice on a 120-day log and a book with a malformed line: same status and output under both explored schedules of any goroutine the command starts (at once / when waited for)"),
    run("cmd/hranoprovod-cli:Harness_app_keywords", QT, {}, cover=["ran"], note="with --today given, the keywords today, yesterday, last7, last30 select by that date and not by the wall clock (the output is a function of the inputs)"),
    run("cmd/hranoprovod-cli:Harness_app_twice", QT, {}, "real", "repo", cover=["ran-twice"], note="whole application: 13 commands twice on the same files, every visiting order of the maps the repository's code ranges over (maporder=repo), names differing only in letter case, equal quantities"),
    run(CMD + "balance:Harness_pure_function", QT, {"unit": 3, "E": 2, "casepair": 1}, "real", "all", cover=["ran-twice"], note=units[3] + ": names that differ only in letter case"),
    run(CMD + "balance:Harness_pure_function", QT, {"unit": 6, "E": 2, "casepair": 1}, "real", "all", cover=["ran-twice"], note=units[6] + ": names that differ only in letter case"),
    run(CMD + "balance:Harness_pure_function", QT, {"unit": 7, "E": 2, "casepair": 1}, "real", "all", cover=["ran-twice"], note=units[7] + ": names that differ only in letter case"),

    run("resolver:Harness_C05_resolve_twice", T, {"K": 3, "M": 2, "L": 1, "Nmax": 4}, "fp", "all", cover=["ran-twice"]),
 ], "assumptions": [REAL, DATA, "self-composition: the unit is run twice on the same symbolic input in one path; the executor explores every pair of map visiting orders"],
 "outside_claim": ["cross-process effects, environment variables, the clock read inside GetTimeFromString's natural-language fallback"],
 "stubs": [FMT, BUFIO, CSVW, TMPL, PF]}

specs["C06"] = {"runs": [
    run("filter:Harness_interval_exact", QT, {}, cover=["built"], note="three arbitrary instants (sec in +-2^40, nsec in [0,1e9)) as bit-vectors through the real time.Time methods"),
    run(CMD + "utils:Harness_walk_period", Q, {"R": 2}, cover=["walked"]),
    run(CMD + "utils:Harness_walk_period", T, {"R": 3}, cover=["walked"]),
    run(CMD + "summary:Harness_summary_day", QT, {}, cover=["ran"], note="concrete supplement: the summary command's real Action (real time.Date/Year/Month/Day) for 6 dates around month/year ends x {today, yesterday, explicit} x time.Local in {UTC, -5h, +13h, -10h}: exactly the headings of that calendar date"),
    run("cmd/hranoprovod-cli:Harness_app_period", Q, {"R": 2}, cover=["ran"], note="whole application: 10 period-aware command variants x period given globally / on the sub-command / on both (sub-command wins) x {begin, end} present or not x symbolic dates: output = output on the log with the other days deleted and no period"),
    run("cmd/hranoprovod-cli:Harness_app_period", Q, {"R": 3, "command": 5}, cover=["ran"], note="three days (a selected day after a rejected day after a selected day) for `print`"),
    run("cmd/hranoprovod-cli:Harness_app_period", T, {"R": 3}, cover=["ran"]),
    run("cmd/hranoprovod-cli:Harness_app_stats_today", QT, {}, owned=["today:", "stats-ok"], cover=["ran"], note="--today independent of the process time zone (explored: UTC, UTC-5, UTC+13)"),
    run("cmd/hranoprovod-cli:Harness_app_keywords", QT, {}, cover=["ran"], note="whole application: --begin/--end = today, yesterday, last7, last30 (globally or on the sub-command) against --today minus 0/1/7/30 days, symbolic dates"),
    run("cmd/hranoprovod-cli:Harness_app_keywords", QT, {"concrete": 1}, cover=["ran"], note="the same on fixed dates around month ends: calendar arithmetic on concrete instants in every explored time zone"),
    run(CMD + "options:Harness_today_and_period", QT, {}, cover=["loaded"], note="real urfave/cli Context and flag.FlagSet code: sub-command period overrides the global one; keywords resolve against --today"),
 ], "assumptions": ["dates within a 40-day window for the walk (any order, repeats allowed)"],
 "outside_claim": ["time-zone independence beyond the summary supplement", "internals of time.Parse/AddDate/Date"],
 "stubs": [TIME, REALSTD]}

agree_owned = ["totals-row-sum", "period-total", "single-element-rows", "balance-grand-total=period-total", "group-by-food", "quantity", "balance-leaf", "unresolved-"]
specs["C07"] = {"runs": [
    run(CMD + "balance:Harness_reports_agree", Q, {"D": 1, "E": 2}, "real", owned=agree_owned, cover=["totals-read"]),
    run(CMD + "stats:Harness_stats_counts", QT, {"R": 3}, cover=["ran"]),
    run(CMD + "stats:Harness_stats_distances", QT, {}, cover=["ran"], note="concrete supplement: 4 values of --today x 11 x 11 distances (0, 1, 2, 28, 29, 59, 365, 366, 1000 days back, 1 and 30 days ahead): the (n days ago) figures, through the real Time.Sub/Duration.Hours code executed concretely"),
    run(CMD + "balance:Harness_golden_concrete", QT, {}, "fp", owned=["golden-"], cover=["golden-totals"], concrete_fmt=True, note="translator validation on the repository's golden `report totals` output"),
    run(CMD + "balance:Harness_reports_agree", T, {"D": 2, "E": 2}, "real", owned=agree_owned, cover=["totals-read"]),
    run("cmd/hranoprovod-cli:Harness_app_period", QT, {"R": 2, "command": 0}, cover=["ran"], note="for every period: `register` under a period (global / sub-command / both) = register of the selected days"),
    run("cmd/hranoprovod-cli:Harness_app_period", QT, {"R": 2, "command": 7}, cover=["ran"], note="for every period: `report totals` under a period = totals of the selected days (so both agree under every period)"),
    run("cmd/hranoprovod-cli:Harness_app_pipeline", QT, {'command': 1, 'posbook': 1, 'E': 1, 'shapes': 4}, "real", cover=["ran"], note="whole application on book and log text with symbolic values: `report totals` = the model's signed period totals (every relation of the property is decided against one model computed from the same symbolic values)"),
    run("cmd/hranoprovod-cli:Harness_app_pipeline", QT, {'command': 2}, "real", cover=["ran"], note='`balance -s x` grand total = period total of x (a recipe name that is also a category prefix of another)'),
    run("cmd/hranoprovod-cli:Harness_app_pipeline", QT, {'command': 5}, "real", cover=["ran"], note='`report element-total x` rows = resolved amounts (the rows of `csv database-resolved`, command 4 in C13)'),
    run("cmd/hranoprovod-cli:Harness_app_pipeline", QT, {'command': 6}, "real", cover=["ran"], note='`report quantity` = per-food sums over the period'),
    run("cmd/hranoprovod-cli:Harness_app_pipeline", QT, {'command': 7}, "real", cover=["ran"], note='`report unresolved` = exactly the logged foods the book does not define'),
    run("cmd/hranoprovod-cli:Harness_app_pipeline", QT, {'command': 11, 'posbook': 1, 'E': 1, 'shapes': 3}, "real", cover=["ran"], note="`register --totals-only` daily totals (default template, rendered) = the model's daily totals, whose sum is the period total"),
    run("cmd/hranoprovod-cli:Harness_app_pipeline", QT, {'command': 13, 'posbook': 1, 'E': 1, 'shapes': 3}, "real", cover=["ran"], note='`summary DATE` = the totals and foods of that day as the register shows them'),
    run("cmd/hranoprovod-cli:Harness_app_pipeline", QT, {'command': 16, 'posbook': 1, 'E': 1, 'shapes': 3}, "real", cover=["ran"], note='`register -s x` rows (positive, minus negative, sum per day) = the daily contributions to x, which add up to the period total'),
    run("cmd/hranoprovod-cli:Harness_app_pipeline", QT, {'command': 17, 'posbook': 1, 'E': 1, 'shapes': 3}, "real", cover=["ran"], note='`register -s x -g` rows = per-food contributions to x over the period'),
    run("cmd/hranoprovod-cli:Harness_app_pipeline", QT, {'command': 18, 'posbook': 1, 'E': 1, 'shapes': 3}, "real", cover=["ran"], note='`register -f PATTERN` rows = the matching logged foods per day, merged'),
    run("cmd/hranoprovod-cli:Harness_app_odd_names_balance", QT, {}, cover=["ran"], note="a name with an empty path segment and its tidy spelling are different foods in `report quantity` and in the balance leaves"),
 ], "assumptions": [REAL, DATA],
 "outside_claim": ["stats day distances for symbolic dates (Time.Sub and Hours()/24 truncation: 64-bit multiplication by 10^9 is out of reach for the solvers; a concrete corpus is run instead)", "rendered digits"],
 "stubs": [FMT, BUFIO, CSVW, TIME]}

c08 = [ls(7, Q, {"n": 3, "m": 2, "a": 4}, ["no-panic"]), ls(7, T, {"n": 3, "m": 2, "a": 6}, ["no-panic"])]
c08 += [ls(c, Q, q, ["no-panic"]) for c in (4, 5, 6)]
specs["C08"] = {"runs": c08 + [
    run(CMD + "csv:Harness_csv_database_malformed", QT, {"k": 2}, owned=["no-panic"]),
    run(CMD + "csv:Harness_csv_resolved_malformed", QT, {"k": 2}, owned=["no-panic"]),
    run(CMD + "stats:Harness_stats_malformed", QT, {"k": 2}, owned=["no-panic"]),
    run(CMD + "lint:Harness_lint", QT, {"lines": 3}, owned=["no-panic"]),
    run(CMD + "utils:Harness_walk_first_error", QT, {"k": 2}, owned=["no-panic"]),
    run("resolver:Harness_C11_depth", QT, {"K": 3, "M": 1, "L": 1, "Nmax": 4}, "fp", "all", owned=["no-panic", "terminates"], depth_is_violation=True, note="cyclic and self-referential books: terminates within the call-depth cap"),
    run("resolver:Harness_C11_depth", T, {"K": 3, "M": 2, "L": 1, "Nmax": 4}, "fp", "all", owned=["no-panic", "terminates"], depth_is_violation=True),
    run(CMD + "balance:Harness_failing_output", QT, {}, owned=["no-panic"]),
    run(CMD + "reporter:Harness_day_item", QT, {"E": 2, "bookshapes": 4}, "real", owned=["no-panic"], note="every (Totals, TotalsOnly) flag shape"),
    run(CMD + "balance:Harness_balance_modes", QT, {"F": 2}, "real", owned=["no-panic"]),
    run(CMD + "balance:Harness_reports_agree", QT, {"D": 1, "E": 2}, "real", owned=["no-panic"]),
    run("parser:Harness_parse_flaky", QT, {"R": 2}, owned=["no-panic"]),
    run("cmd/hranoprovod-cli:Harness_app_bad_input", QT, {}, owned=["no-panic"], note="whole application on malformed and unreadable files"),
    run("cmd/hranoprovod-cli:Harness_main_exit_status", QT, {}, owned=["no-panic"], note="main() under every scenario"),
    run("cmd/hranoprovod-cli:Harness_app_cyclic_book", QT, {}, owned=["no-panic", "terminates", "cyclic-book-is-error", "acyclic-book-resolves-under-default-limit"], cover=["ran"], depth_is_violation=True, note="whole application: three cyclic books and an acyclic one x --maxdepth in {unset, -1, 0, 1, 2} x four commands that resolve the book: terminates within the call-depth cap, cyclic books are errors"),
    run("cmd/hranoprovod-cli:Harness_app_odd_names", QT, {}, owned=["no-panic", "terminates"], cover=["ran"], depth_is_violation=True, max_steps=3000000, note="whole application: 9 names with stray separators, empty segments, quotes, long segments x 14 tree/register/export commands: terminates (step and call-depth budgets) without a panic"),
    run("cmd/hranoprovod-cli:Harness_app_flag_combinations", QT, {}, owned=["no-panic", "terminates"], cover=["ran"], depth_is_violation=True, note="whole application: every subset of nine register flags and of three balance flags: terminates without a panic"),
    run("cmd/hranoprovod-cli:Harness_app_failing_stdout", QT, {}, owned=["no-panic"], note="17 commands on usual, empty, comment-only and other-layout logs"),
    run("cmd/hranoprovod-cli:Harness_app_single_food_patterns", QT, {}, owned=["no-panic", "malformed-pattern-is-error", "valid-pattern-runs"], cover=["ran"], note="`register -f PATTERN` with 4 well-formed and 8 malformed regular expressions (regexp.Compile executed from its real SSA)"),
    run("cmd/hranoprovod-cli:Harness_app_settings", Q, {"full": 0}, owned=["no-panic"], note="whole application under every source combination of the settings"),
 ], "assumptions": ["implicit assertions on every explored path: nil dereference, index and slice bounds, failed type assertion, integer division by zero, explicit panic; termination = every path ends within the step and call-depth budgets"],
 "outside_claim": ["arbitrary flag shapes (urfave/cli)", "lines longer than the bound", "stack exhaustion as such for the default limit 10 (recursion depth is bounded by construction, shown for N<=4)", "--single-food patterns beyond the listed corpus"],
 "stubs": [REALSTD, PF, TIME, FMT]}

specs["C09"] = {"runs": [ls(c, Q, q, ["malformed-"]) for c in (5, 6)] + [ls(c, T, t, ["malformed-"]) for c in (5, 6)] + [
    run(CMD + "lint:Harness_lint", Q, {"lines": 3}, owned=["lint-"], cover=["linted"]),
    run(CMD + "lint:Harness_lint", T, {"lines": 4}, owned=["lint-"], cover=["linted"]),
    run(CMD + "utils:Harness_load_first_error", QT, {"k": 2}, owned=["malformed-"], cover=["loaded"]),
    run(CMD + "utils:Harness_walk_first_error", QT, {"k": 2}, owned=["malformed-", "nothing-processed"], cover=["walked"]),
    run(CMD + "csv:Harness_csv_database_malformed", QT, {"k": 2}, owned=["malformed-", "no-panic"]),
    run(CMD + "csv:Harness_csv_resolved_malformed", QT, {"k": 2}, owned=["malformed-", "no-panic"], cover=["ran"]),
    run(CMD + "stats:Harness_stats_malformed", QT, {"k": 2}, owned=["malformed-", "no-panic"]),
    run("cmd/hranoprovod-cli:Harness_main_exit_status", QT, {}, owned=["malformed-input-is-nonzero-exit"], cover=["ran"], note="the program's own main(): a malformed line in the files a command reads gives a non-zero exit status (lint's status is not asserted)"),
    run("cmd/hranoprovod-cli:Harness_app_bad_input", QT, {}, owned=["malformed-", "well-formed-"], cover=["ran"], note="whole application: each of 16 file-reading command variants with a malformed line planted in the log or the book: GetApp().Run returns an error quoting the line and its number"),
 ], "assumptions": [PF, "malformed = an indented line whose body has no blank at all (bad syntax), or whose value token starts with a byte that occurs in no Go float literal (bad number)"],
 "outside_claim": ["stderr text", "lint's exit status when it found malformed lines (it returns nil: the property states what lint prints, not its status)"], "stubs": [REALSTD, FMT]}

specs["C10"] = {"runs": [
    run("parser:Harness_parse_flaky", QT, {"R": 3}, cover=["truncated", "complete"], note="reader fails at every byte offset of files of 1..3 records, chunk sizes 1/7/4096, with and without a final EOL"),
    run(CMD + "utils:Harness_walk_flaky", QT, {}, cover=["truncated", "complete"], note="WalkNodesInStream with and without a period over a reader failing at every offset"),
    run("cmd/hranoprovod-cli:Harness_main_exit_status", QT, {}, owned=["unreadable-input-is-nonzero-exit"], cover=["ran"], note="the program's own main(): files that are directories give a non-zero exit status"),
    run("cmd/hranoprovod-cli:Harness_app_bad_input", QT, {}, owned=["unreadable-"], cover=["ran"], note="whole application: each of 16 file-reading command variants with the log or the book being a directory (open succeeds, every read fails)"),
    run(CMD + "balance:Harness_failing_input", QT, {}, cover=["truncated", "complete"], note="16 command functions (incl. register/print with an end date, summary of a day that later days follow, on a log that is not in date order) reading the log or the book from a reader that fails at a symbolic offset"),
    run("parser:Harness_parse_long_line", QT, {}, cover=["long"], max_steps=60000000, note="a 70 000-byte line: the real bufio.ErrTooLong path, executed concretely"),
 ], "assumptions": ["the OS is represented as `Read returns (n, err)`: EISDIR, permissions etc. are a non-EOF error from Read"],
 "outside_claim": ["os.Open failures (reported by ParseFileCallback, not subject here)"], "stubs": [REALSTD]}

specs["C12"] = {"runs": [
    run(CMD + "balance:Harness_compose_per_day", Q, {"E": 1}, "real", cover=["composed"]),
    run(CMD + "balance:Harness_compose_period", Q, {"E": 2}, "real", cover=["composed"]),
    run(CMD + "balance:Harness_compose_stream", QT, {}, "fp", cover=["composed"], note="through the real parser: log1 ++ log2 as text, symbolic dates, empty day blocks"),
    run("cmd/hranoprovod-cli:Harness_app_compose", QT, {}, "fp", cover=["composed"], note="whole application: 7 per-day command variants (default and left-aligned templates rendered, old reporter, csv log, print, single food, single element) on log1 ++ log2 vs log1 and log2: day blocks with symbolic dates (any order, same date), notes, an empty day, with or without --begin/--end"),
    run("cmd/hranoprovod-cli:Harness_app_compose", QT, {}, "fp", cover=["composed"], concrete_fmt=True, note="the same with the (concrete) amounts rendered natively, so that code inspecting the rendered bytes (column alignment over the whole report) runs"),
    run("cmd/hranoprovod-cli:Harness_app_partial_report", QT, {}, "fp", owned=["earlier-days-shown-as-before"], cover=["ran"], note="appending a day with a malformed line does not change what is shown for the earlier days (six per-day commands)"),
    run("cmd/hranoprovod-cli:Harness_app_period", Q, {"R": 3, "command": 8}, cover=["ran"], note="a period report (`report quantity`) over three days in any order = the report of the selected days: days are independent"),
    run("cmd/hranoprovod-cli:Harness_app_twice", QT, {}, "real", "repo", owned=["same-output", "same-error-status"], cover=["ran-twice"], note="what is shown for a day does not depend on the visiting order of maps (names differing only in case, a day of 36 lines)"),
    run(CMD + "balance:Harness_compose_per_day", T, {"E": 2}, "real", cover=["composed"]),
    run(CMD + "balance:Harness_compose_period", T, {"E": 2, "bookshapes": 4}, "real", cover=["composed"]),
 ], "assumptions": [REAL, DATA, "two day blocks (same or different dates); longer histories follow by induction on the same two-block step, since reporters carry state only through the fields exercised here"],
 "outside_claim": ["rendered digits of numbers"], "stubs": [FMT, BUFIO, CSVW, TMPL]}

specs["C13"] = {"runs": [
    run(CMD + "csv:Harness_csv_log", Q, {"n": 3, "m": 2}, cover=["exported"]),
    run(CMD + "csv:Harness_csv_database", Q, {"n": 3, "m": 2}, "fp", "all", cover=["exported"]),
    run("cmd/hranoprovod-cli:Harness_app_pipeline", QT, {'command': 3}, "real", cover=["ran"], note='whole application, `csv log`: one row per (day, distinct food), ISO date, merged quantity'),
    run("cmd/hranoprovod-cli:Harness_app_pipeline", QT, {'command': 4, 'shapes': 4}, "real", cover=["ran"], note='whole application, `csv database-resolved`: one row per (recipe, resolved element) sorted, nested recipes, repeated ingredients, the empty recipe'),
    run(CMD + "balance:Harness_failing_output", QT, {"command": 8}, owned=["lost-output-is-error"], cover=["ran"], note="lossless or an error: `csv log` with a sink failing from its 1st/2nd/3rd write"),
    run(CMD + "balance:Harness_failing_output", QT, {"command": 9}, owned=["lost-output-is-error"], cover=["ran"], note="`csv database`"),
    run(CMD + "balance:Harness_failing_output", QT, {"command": 10}, owned=["lost-output-is-error"], cover=["ran"], note="`csv database-resolved`"),
    run(CMD + "csv:Harness_csv_log", T, {"n": 4, "m": 2}, cover=["exported"]),
    run(CMD + "csv:Harness_csv_database", T, {"n": 4, "m": 2}, "fp", "all", cover=["exported"]),
 ], "assumptions": [PF, "names: first/last byte letter, digit or non-ASCII; inner bytes anything except CR/LF (commas, quotes, spaces included)"],
 "outside_claim": ["RFC 4180 quoting by encoding/csv", "digit rounding by fmt", "ISO rendering by time.Format (the claim: the ISO layout constant is what is passed)"],
 "stubs": [CSVW, FMT, TIME, REALSTD]}

specs["C14"] = {"runs": [
    run(CMD + "print:Harness_print_roundtrip", Q, {"n": 3, "layouts": 2}, render_max=5, cover=["read-back"]),
    run(CMD + "print:Harness_print_roundtrip", T, {"n": 4, "layouts": 3}, render_max=6, cover=["read-back"]),
    run(CMD + "options:Harness_settings_precedence", QT, {}, owned=["print-layout=parse-layout"], cover=["loaded"]),
    run("_root:Harness_merge_duplicates", QT, {"E": 5}, "real", cover=["merged"], note="duplicates of a day merged: every repetition pattern of <=5 entries"),
    run("cmd/hranoprovod-cli:Harness_app_pipeline", QT, {"command": 8, "crlf": 1, "shapes": 2}, "real", cover=["ran"], note="whole application, `print` on files saved with CRLF line endings"),
    run("cmd/hranoprovod-cli:Harness_app_period", QT, {"R": 2, "command": 5}, cover=["ran"], note="whole application, `print` x periods: given globally, on the sub-command or both"),
    run("cmd/hranoprovod-cli:Harness_app_pipeline", QT, {'command': 8}, "real", cover=["ran"], note='whole application, `print`: days in order, foods merged, quantities'),

 ], "assumptions": ["%0.2f renders to 4..6 bytes of the shape [-]digits.digits that strconv.ParseFloat accepts, and rendering ParseFloat(render(v)) gives render(v) again (library facts assumed as axioms)", "names as in C04; note keys/texts with ASCII letter/digit ends", PF],
 "outside_claim": ["time.Format/time.Parse being inverse for a layout", "periods (C06)"], "stubs": [FMT, BUFIO, TIME, REALSTD]}

specs["C15"] = {"runs": [
    run(CMD + "reporter:Harness_format_value", QT, {}, cover=["formatted"], note="every binary64 incl. NaN, +-0, +-Inf (IEEE encoding)"),
    run(CMD + "register:Harness_old_cnum", QT, {}, cover=["formatted"]),
    run(CMD + "reporter:Harness_shorten", Q, {"len": 30}, cover=["shortened"]),
    run(CMD + "reporter:Harness_shorten", T, {"len": 40}, cover=["shortened"]),
    run(CMD + "register:Harness_presentation_numbers", Q, {"E": 2}, "real", cover=["printed"]),
    run(CMD + "register:Harness_presentation_numbers", T, {"E": 3}, "real", cover=["printed"]),
    run(CMD + "reporter:Harness_day_item", Q, {"E": 2}, "real", owned=["foods-", "totals-", "food-", "total-", "ingredient-"], note="(Totals, TotalsOnly) in 2x2: what is shown is identical whenever shown"),
    run("cmd/hranoprovod-cli:Harness_app_pipeline", QT, {'command': 9, 'posbook': 1, 'E': 1, 'shapes': 3}, "real", cover=["ran"], note='whole application, `register` with the default template rendered: same records and numbers as the model'),
    run("cmd/hranoprovod-cli:Harness_app_pipeline", QT, {'command': 10, 'posbook': 1, 'E': 1, 'shapes': 3}, "real", cover=["ran"], note='`register --internal-template-name=left-aligned`: same records and numbers'),
    run("cmd/hranoprovod-cli:Harness_app_pipeline", QT, {'command': 0, 'posbook': 1, 'E': 1, 'shapes': 4}, "real", cover=["ran"], note='`register --use-old-reg-reporter`: same records and numbers (book shapes include the empty recipe)'),
    run("cmd/hranoprovod-cli:Harness_app_pipeline", QT, {'command': 12, 'posbook': 1, 'E': 1, 'shapes': 3}, "real", cover=["ran"], note='`register --no-totals`: exactly the food part'),
    run("cmd/hranoprovod-cli:Harness_app_pipeline", QT, {'command': 11, 'posbook': 1, 'E': 1, 'shapes': 3}, "real", cover=["ran"], note='`register --totals-only`: exactly the totals part'),
    run("cmd/hranoprovod-cli:Harness_app_color", QT, {}, "fp", cover=["ran"], note="whole application: --no-color given globally or on the sub-command; coloured output minus escape codes = plain output; colour by sign (symbolic quantity) for four register variants"),
    run("cmd/hranoprovod-cli:Harness_app_pipeline", QT, {"command": 14}, "real", cover=["ran"], note="`report quantity --desc`: the same rows as without it, in descending order"),
    run("cmd/hranoprovod-cli:Harness_app_pipeline", QT, {"command": 15}, "real", cover=["ran"], note="`report element-total --desc x`: the same rows, in descending order"),
    run(CMD + "reporter:Harness_day_item_long_names", QT, {}, "real", cover=["item"], note="names longer than the columns that coincide after shortening: as foods outside the book, as elements of recipes, as recipes of the book"),
    run(CMD + "balance:Harness_balance_modes", Q, {"F": 2}, "real", owned=["collapse-"], cover=["printed"], note="collapse modes change only layout: same leaves and amounts (prefix-free sets), top-level rows add up to everything logged (every set)"),
    run(CMD + "balance:Harness_balance_modes", T, {"F": 3}, "real", owned=["collapse-"], cover=["printed"]),
    run(CMD + "balance:Harness_balance_single", QT, {"F": 2, "catalogue": 6}, "real", owned=["single-"], cover=["printed"], note="--single-element X under default / collapse-last / collapse: the same foods with the same amounts of X and the grand total"),
 ], "assumptions": [REAL, DATA, "printable ASCII names for shortening"],
 "outside_claim": ["non-ASCII names in shorten", ],
 "stubs": [FMT, BUFIO, "github.com/aquilax/truncate: executed from its real SSA (math.Ceil/Floor intrinsics)"]}

prec_owned = ["explicit-missing-config-is-error", "load-ok", "database:", "logfile:", "date-format:", "maxdepth:", "today:"]
specs["C16"] = {"runs": [
    run(CMD + "options:Harness_settings_precedence", QT, {}, owned=prec_owned, cover=["loaded"], note="real urfave/cli Context + flag.FlagSet; 4 config-file situations x 2^4 flags x 2^4 config entries"),
    run(CMD + "register:Harness_no_database", QT, {}, cover=["ran"]),
    run("cmd/hranoprovod-cli:Harness_app_no_database", QT, {}, cover=["ran"], note="whole application: --no-database against whatever names a book (nothing, --database, HR_DATABASE, the configuration file) for eleven commands: the output of the same command with an empty file as the book"),
    run("cmd/hranoprovod-cli:Harness_app_settings", Q, {"full": 0}, owned=prec_owned + ["print-layout=parse-layout"], cover=["loaded"], note="whole application GetApp().Run(args): the real flag definitions of root.go (names, defaults, EnvVars), urfave/cli flag and environment handling, options.Load; flag x env x config entry for one focus setting (the other settings jointly unset / from flags / from env / from config) x 7 configuration-file situations (absent, default location $HOME/.hranoprovod/config, --config, HR_CONFIG, either naming a missing file, --config over HR_CONFIG) x --today"),
    run("cmd/hranoprovod-cli:Harness_app_maxdepth", QT, {}, owned=["maxdepth:"], cover=["ran"], note="whole application: the resolve depth from flag / HR_MAXDEPTH / configuration file reaches each of nine resolving commands (book nested 3 deep: limits 1-3 rejected, 4+ resolve)"),
    run("cmd/hranoprovod-cli:Harness_app_stats_today", QT, {}, owned=["today:", "stats-ok"], cover=["ran"], note="whole application: --today is shown by stats as given, in every explored time zone"),
    run("cmd/hranoprovod-cli:Harness_app_keywords", QT, {}, cover=["ran"], note="the current date given with --today is the one the period keywords are counted from"),
    run("cmd/hranoprovod-cli:Harness_app_settings", T, {"full": 1}, owned=prec_owned + ["print-layout=parse-layout"], cover=["loaded"], max_paths=400000, note="the full product {flag} x {env} x {config entry} over the four settings"),
 ], "assumptions": ["process environment: os.LookupEnv/syscall.Getenv read a virtual environment set by the harness; os/user.Current returns a user whose home directory is a virtual directory", "gopkg.in/gcfg.v1 ReadInto: contract stub interpreting the documented INI subset and assigning the [Global]/[Resolver] fields", "os.Stat/os.Open: virtual file system (exists / does not exist)"],
 "outside_claim": ["gcfg's INI parsing", "how the C library / passwd database resolves the home directory", "--today parsing (C06)"],
 "stubs": ["gcfg.ReadInto", "os.Stat, os.Open, (*os.File).Read/Close, os.IsNotExist: virtual FS"]}

specs["C17"] = {"runs": [
    run(CMD + "balance:Harness_failing_output", QT, {}, owned=["lost-output-is-error", "complete-output-succeeds", "something-written"], cover=["ran"], note="19 command variants x sink failing from its 1st/2nd/3rd write or never"),
    run("cmd/hranoprovod-cli:Harness_main_exit_status", QT, {}, owned=["lost-output-is-nonzero-exit", "exit-0-on-success"], cover=["ran"], note="the program's own main(): os.Args, GetApp().Run, log.Fatal, exit status; standard output healthy / a full device (ENOSPC on every write) / a closed pipe (SIGPIPE kills the process unless the program ignores it, then EPIPE) x 16 commands; natively the real binary is re-executed with /dev/full and a closed pipe"),
    run("cmd/hranoprovod-cli:Harness_app_failing_stdout", QT, {}, owned=["lost-output-is-error", "complete-output-succeeds"], cover=["ran"], note="whole application: 17 command variants writing to the process's standard output (os.Stdout) which rejects every write: GetApp().Run returns an error"),
 ], "assumptions": [BUFIO, CSVW, TMPL], "outside_claim": ["reports longer than bufio's 4096-byte buffer (write-through before Flush)", "sinks failing from a byte offset inside a write"],
 "stubs": [FMT, TIME, "os.Open: virtual FS"]}

specs["C18"] = {"runs": [
    run("parser:Harness_channel_protocol", Q, {"lines": 3}, cover=["observed"]),
    run("parser:Harness_channel_protocol", QT, {"lines": 2, "configs": 1}, cover=["observed"], note="under the default configuration, the zero value and another comment character, on input with a line starting with #"),
    run("parser:Harness_channel_protocol", T, {"lines": 4}, cover=["observed"]),
    run("parser:Harness_channel_read_failure", QT, {}, cover=["observed"], note="reader failing at every offset: the error reaches the consumer"),
    run("parser:Harness_channel_two_parsers", QT, {}, cover=["observed"], note="a consumer that runs the callback parser on another stream after every record it receives (its reaction runs at the producer's send): the channel parser's records are its own"),
    run("parser:Harness_channel_parse_file", QT, {}, cover=["observed"], note="Parser.ParseFile vs ParseFileCallback on an existing file, a malformed file, a missing file and a directory (virtual file system)"),
 ], "assumptions": ["schedule reduction: the producer (Parser.ParseStream) performs a deterministic sequence of blocking sends on unbuffered channels and contains no receive, select or go statement (the executor aborts as unsupported if it meets one); with one producer at most one send is pending, so every schedule shows the consumer the longest prefix of the send sequence its policy accepts. The reduction is an argument; the send sequence itself is computed symbolically for all inputs"],
 "outside_claim": ["scheduling jitter and the race detector as such", "select statements other than a non-blocking select of sends (every outcome of which is explored)"], "stubs": [REALSTD, FMT, "os.Open/(*os.File).Read: virtual file system"]}

os.makedirs(os.path.join(here, "properties.d"), exist_ok=True)
for pid, s in specs.items():
    s = dict(s); s["property"] = pid
    json.dump(s, open(os.path.join(here, "properties.d", pid + ".json"), "w"), indent=1)
print("specs:", sorted(specs))
