package parser

import (
	"strconv"

	shared "github.com/aquilax/hranoprovod-cli/v3"
)

// ---- byte classes (constraints on symbolic bytes; nothing here resembles the parser)

const (
	hAlnum       = "azAZ09"
	hAlnumOrHigh = "azAZ09\x80\xff"
	hNumInner    = "09..++--eeEE"
	hNumLast     = "09.."
)

// hName: n symbolic bytes forming a documented name: first and last a letter, digit or
// non-ASCII byte; inner bytes anything but CR/LF (spaces, '/', ':', '-', '"', '#' allowed).
func hName(tag string, n int) string {
	s := verifBytes(tag, n)
	for i := 0; i < n; i++ {
		c := s[i]
		if i == 0 || i == n-1 {
			verifAssume(verifByteIn(c, hAlnumOrHigh))
		} else {
			verifAssume(c != '\n')
			verifAssume(c != '\r')
		}
	}
	return s
}

// hWord: like hName but ASCII letters/digits at the ends and no ':' inside (note keys).
func hWord(tag string, n int, colonOK bool) string {
	s := verifBytes(tag, n)
	for i := 0; i < n; i++ {
		c := s[i]
		if i == 0 || i == n-1 {
			verifAssume(verifByteIn(c, hAlnum))
		} else {
			verifAssume(c != '\n')
			verifAssume(c != '\r')
			if !colonOK {
				verifAssume(c != ':')
			}
		}
	}
	return s
}

// hNum: m symbolic bytes over [0-9+-.eE], last byte a digit or '.'.
func hNum(tag string, m int) string {
	s := verifBytes(tag, m)
	for i := 0; i < m; i++ {
		c := s[i]
		if i == m-1 {
			verifAssume(verifByteIn(c, hNumLast))
		} else {
			verifAssume(verifByteIn(c, hNumInner))
		}
	}
	return s
}

// hNoBlank: k symbolic bytes, none a blank/CR/LF, first and last letter/digit/high.
func hNoBlank(tag string, k int) string {
	s := verifBytes(tag, k)
	for i := 0; i < k; i++ {
		c := s[i]
		if i == 0 || i == k-1 {
			verifAssume(verifByteIn(c, hAlnumOrHigh))
		} else {
			verifAssume(c != '\n')
			verifAssume(c != '\r')
			verifAssume(c != ' ')
			verifAssume(c != '\t')
		}
	}
	return s
}

// ---- expected records

type hEntry struct {
	name string
	val  float64
}

type hNote struct{ key, text string }

type hNode struct {
	header  string
	entries []hEntry
	notes   []hNote
}

var hIndents = []string{"  ", "\t", "- ", "    ", "  - "}
var hSeps = []string{": ", " ", ":\t", ":  ", "\t"}
var hTrails = []string{"", " ", "\t"}

func hPick(tag string, all []string, quickN int) string {
	n := len(all)
	if verifBound("layouts", 0) == 0 && quickN < n {
		n = quickN
	}
	return all[verifChoose(tag, n)]
}

func hCheckNodes(got []*shared.ParserNode, want []hNode) {
	verifAssert("record-count", len(got) == len(want))
	if len(got) != len(want) {
		return
	}
	for i := range want {
		g, w := got[i], want[i]
		verifAssert("record-header", g.Header == w.header)
		verifAssert("entry-count", len(g.Elements) == len(w.entries))
		if len(g.Elements) == len(w.entries) {
			for j := range w.entries {
				verifAssert("entry-name", g.Elements[j].Name == w.entries[j].name)
				verifAssert("entry-value", verifSameFloat(g.Elements[j].Value, w.entries[j].val))
			}
		}
		ng := 0
		if g.Metadata != nil {
			ng = len(*g.Metadata)
		}
		verifAssert("note-count", ng == len(w.notes))
		if ng == len(w.notes) {
			for j := range w.notes {
				if w.notes[j].key == "\x00free" {
					continue // a free-form note: it is a note; how it splits at a colon is not asserted
				}
				verifAssert("note-key", (*g.Metadata)[j].Name == w.notes[j].key)
				verifAssert("note-text", (*g.Metadata)[j].Value == w.notes[j].text)
			}
		}
	}
}

// Harness_parse_line_step: one symbolic line of a given class, placed behind a concrete prefix
// that establishes each loop state of the parser (no record open / record open with 0, 1, 2
// entries) and shifted by blank/comment lines; a concrete trailer record follows so that the
// flush of the open record is observed. Serves C04 (classes blank, comment, heading, note,
// entry), C09 (classes bad-syntax, bad-number: exact line number and raw line) and C08
// (class arbitrary: implicit no-panic assertion only).
func Harness_parse_line_step() {
	nmax := verifBound("n", 3)
	mmax := verifBound("m", 2)
	amax := verifBound("a", 3)

	state := verifBound("state", -1)
	if state < 0 {
		state = verifChoose("state", 4)
	}
	pad := verifChoose("pad", 3)
	crlf := verifChoose("eol", 2) == 1
	eol := "\n"
	if crlf {
		eol = "\r\n"
	}
	class := verifBound("class", -1)
	if class < 0 {
		class = verifChoose("class", 8)
	}

	src := ""
	lines := 0
	var want []hNode
	open := false // a record is open before the symbolic line
	cur := hNode{}
	if state >= 1 {
		src += "h:" + eol
		lines++
		open = true
		cur = hNode{header: "h"}
	}
	if state >= 2 {
		src += "  a: 1" + eol
		lines++
		cur.entries = append(cur.entries, hEntry{"a", 1})
	}
	if state >= 3 {
		src += "\tb b: 2.5" + eol
		lines++
		cur.entries = append(cur.entries, hEntry{"b b", 2.5})
	}
	if pad >= 1 {
		src += "# a comment: 1" + eol
		lines++
	}
	if pad >= 2 {
		src += "  \t" + eol
		lines++
	}
	p := lines + 1 // 1-based physical line number of the symbolic line
	if open {
		verifLabel("line-state", "inside-record")
	} else {
		verifLabel("line-state", "before-first-heading")
	}

	line := ""
	wantErr := 0 // 0 none, 1 bad syntax, 2 conversion
	errToken := ""
	switch class {
	case 0: // blank
		verifLabel("class", "blank")
		k := verifChoose("k", amax+1)
		for i := 0; i < k; i++ {
			if verifChoose("ws", 2) == 0 {
				line += " "
			} else {
				line += "\t"
			}
		}
	case 1: // comment
		verifLabel("class", "comment")
		k := verifChoose("k", amax+1)
		body := verifBytes("c", k)
		for i := 0; i < k; i++ {
			verifAssume(body[i] != '\n')
			verifAssume(body[i] != '\r')
		}
		line = "#" + body
	case 2: // heading
		verifLabel("class", "heading")
		n := 1 + verifChoose("n", nmax)
		name := hName("name", n)
		line = name + ":" + hPick("trail", hTrails, 2)
		if open {
			want = append(want, cur)
		}
		cur = hNode{header: name}
		open = true
	case 3: // note "# key: text" / "# text"
		verifLabel("class", "note")
		ind := hPick("indent", hIndents[:2], 2)
		shape := verifChoose("keyed", 3)
		if shape == 2 {
			// free-form note: any bytes after the comment sign (punctuation first, colons anywhere)
			k := 1 + verifChoose("tn", nmax)
			text := verifBytes("text", k)
			for i := 0; i < k; i++ {
				verifAssume(text[i] != '\n')
				verifAssume(text[i] != '\r')
			}
			line = ind + "#" + hPick("nsp", []string{" ", ""}, 2) + text
			if open {
				cur.notes = append(cur.notes, hNote{"\x00free", ""})
			}
		} else if shape == 1 {
			key := hWord("key", 1+verifChoose("kn", 2), false)
			text := hWord("text", 1+verifChoose("tn", nmax), true)
			line = ind + "# " + key + ": " + text
			if open {
				cur.notes = append(cur.notes, hNote{key, text})
			}
		} else {
			text := hWord("text", 1+verifChoose("tn", nmax), false)
			line = ind + "#" + hPick("nsp", []string{" ", ""}, 2) + text
			if open {
				cur.notes = append(cur.notes, hNote{"", text})
			}
		}
	case 4: // well-formed entry
		verifLabel("class", "entry")
		n := 1 + verifChoose("n", nmax)
		m := 1 + verifChoose("m", mmax)
		name := hName("name", n)
		num := hNum("num", m)
		verifAssume(verifPFOK(num))
		v, err := strconv.ParseFloat(num, 64)
		verifAssume(err == nil)
		q := ""
		if verifChoose("quoted", 2) == 1 {
			q = "\""
		}
		line = hPick("indent", hIndents, 3) + q + name + q + hPick("sep", hSeps, 3) + num + hPick("trail", hTrails, 2)
		if open {
			cur.entries = append(cur.entries, hEntry{name, v})
		}
	case 5: // malformed: no blank before the value
		verifLabel("class", "bad-syntax")
		k := 1 + verifChoose("k", amax)
		body := hNoBlank("body", k)
		line = hPick("indent", hIndents, 3) + body
		if open {
			wantErr = 1
		} else {
			wantErr = 1 // the property's definition is line-local: still malformed
		}
	case 6: // malformed: value is not a number
		verifLabel("class", "bad-number")
		n := 1 + verifChoose("n", 2)
		m := 1 + verifChoose("m", mmax)
		name := hName("name", n)
		// a token that cannot be a number: its first byte occurs in no Go float literal
		tok := hNoBlank("tok", m)
		verifAssume(verifByteIn(tok[0], "ghjmooqsuwzzGHJMOOQSUWZZ\x80\xff"))
		for i := 0; i < m; i++ {
			verifAssume(tok[i] != ':')
			verifAssume(tok[i] != '"')
			if i == m-1 {
				verifAssume(tok[i] != '-')
			}
		}
		verifAssume(!verifPFOK(tok))
		_, err := strconv.ParseFloat(tok, 64)
		verifAssume(err != nil)
		line = hPick("indent", hIndents, 3) + name + hPick("sep", hSeps, 3) + tok
		wantErr = 2
		errToken = tok
	case 7: // arbitrary bytes (C08): only the implicit assertions
		verifLabel("class", "arbitrary")
		k := verifChoose("k", amax+1)
		line = verifBytes("x", k)
		for i := 0; i < k; i++ {
			verifAssume(line[i] != '\n')
		}
	}
	src += line + eol
	lines++
	// trailer: a complete record, so the flush of the open record is observable
	src += "zz:" + eol + "  t: 9"
	if open {
		want = append(want, cur)
	}
	want = append(want, hNode{header: "zz", entries: []hEntry{{"t", 9}}})

	r, err := hParse(src)
	verifCover("parsed")
	if class == 7 {
		return
	}
	verifAssert("callback-error-not-returned", err == nil)
	if wantErr == 0 {
		verifAssert("no-error-reported", len(r.errs) == 0)
		hCheckNodes(r.nodes, want)
		return
	}
	// malformed line: reported once, with its exact 1-based line number and raw text
	verifAssert("malformed-reported", len(r.errs) == 1)
	if len(r.errs) == 1 {
		switch wantErr {
		case 1:
			e, ok := r.errs[0].(*ErrorBadSyntax)
			verifAssert("malformed-kind", ok)
			if ok {
				verifAssert("malformed-line-number", e.LineNumber == p)
				verifAssert("malformed-raw-line", e.Line == line)
				verifAssert("malformed-message-quotes-line", verifContains(e.Error(), line))
				verifAssert("malformed-message-has-line-number", verifContains(e.Error(), "line "+strconv.Itoa(p)))
			}
		case 2:
			e, ok := r.errs[0].(*ErrorConversion)
			verifAssert("malformed-kind", ok)
			if ok {
				verifAssert("malformed-line-number", e.LineNumber == p)
				verifAssert("malformed-raw-line", e.Line == line)
				verifAssert("malformed-token", e.Text == errToken)
				verifAssert("malformed-message-quotes-line", verifContains(e.Error(), line))
				verifAssert("malformed-message-has-line-number", verifContains(e.Error(), "line "+strconv.Itoa(p)))
			}
		}
	}
	// and it adds no entry: the records are those of the file without that line
	hCheckNodes(r.nodes, want)
}
