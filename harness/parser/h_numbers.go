package parser

import "strconv"

// Harness_parse_numbers_concrete: a corpus of number tokens from the documented format
// (signed, fractional, exponent, leading/trailing dot, long mantissas, values whose decimal
// expansion is not representable) executed concretely through the parser and compared with
// strconv.ParseFloat bit for bit. Supplements the symbolic harnesses, in which ParseFloat is an
// uninterpreted function: here the "correctly rounded value" clause is exercised on real digits.
func Harness_parse_numbers_concrete() {
	toks := []string{"0", "1", "-1", "+1", "0.1", "0.2", "0.3", "0.7", "1.1", "1.15", "4.35", "8.2", "-0.3", "2.675", "1.005",
		"0.003", "123.456", "1e3", "1E3", "1e-3", "-2.5e-7", "1.", ".5", "-.5", "100", "1200", "0.000001", "9007199254740993",
		"3.141592653589793", "010", "0100", "-0100", "+0777", "00012", "0144", "08", "019", "2.2250738585072014e-308", "1.7976931348623157e308", "0.30000000000000004", "1e22", "1e23", "5e-324", "179.9999999999"}
	src := "h:\n"
	for i, t := range toks {
		src += "  n" + strconv.Itoa(i) + ": " + t + "\n"
	}
	rec, err := hParse(src)
	verifCover("parsed")
	verifAssert("callback-error-not-returned", err == nil)
	verifAssert("no-error-reported", len(rec.errs) == 0)
	verifAssert("record-count", len(rec.nodes) == 1)
	if len(rec.nodes) != 1 {
		return
	}
	els := rec.nodes[0].Elements
	verifAssert("entry-count", len(els) == len(toks))
	if len(els) != len(toks) {
		return
	}
	for i, t := range toks {
		want, perr := strconv.ParseFloat(t, 64)
		verifAssert("corpus-token-accepted", perr == nil)
		verifAssert("entry-value-correctly-rounded", verifSameFloat(els[i].Value, want))
	}
}
