package parser

import (
	"io"
	"strings"

	shared "github.com/aquilax/hranoprovod-cli/v3"
)

var hEOF = io.EOF

// hRec records what the callback parser delivers.
type hRec struct {
	nodes []*shared.ParserNode
	errs  []error
	seq   []int // 0 = node, 1 = error, in delivery order
}

func (r *hRec) cb(n *shared.ParserNode, err error) (bool, error) {
	if err != nil {
		r.errs = append(r.errs, err)
		r.seq = append(r.seq, 1)
	} else {
		r.nodes = append(r.nodes, n)
		r.seq = append(r.seq, 0)
	}
	return false, nil
}

func hParse(src string) (*hRec, error) {
	r := &hRec{}
	err := ParseStreamCallback(strings.NewReader(src), NewDefaultConfig(), r.cb)
	return r, err
}

// Harness_smoke_parse: tiny smoke test, one heading and one entry with symbolic name bytes.
func Harness_smoke_parse() {
	n := verifBound("n", 2)
	name := verifBytes("name", n)
	for i := 0; i < n; i++ {
		c := name[i]
		verifAssume((c >= 'a' && c <= 'z') || c >= 0x80)
	}
	src := "h:\n  " + name + ": 1.5\n"
	r, err := hParse(src)
	verifAssert("no-error", err == nil)
	verifAssert("one-node", len(r.nodes) == 1)
	if len(r.nodes) == 1 {
		verifAssert("header", r.nodes[0].Header == "h")
		verifAssert("one-entry", len(r.nodes[0].Elements) == 1)
		if len(r.nodes[0].Elements) == 1 {
			verifAssert("name", r.nodes[0].Elements[0].Name == name)
			verifAssert("value", r.nodes[0].Elements[0].Value == 1.5)
		}
	}
}

// Harness_parse_file_equals_stream: ParseFileCallback on a file delivers exactly what
// ParseStreamCallback delivers on the file's content - for ordinary files and for the edge cases
// of readers that look ahead: one- and two-byte files, a file without a final newline, an empty
// file, a leading byte order mark.
func Harness_parse_file_equals_stream() {
	contents := []string{"", "7", "a:", "a\n", "a:\n  b: 1", "d0:\n  a: 1\nd1:\n  b: 2\n", "\xef\xbb\xbfd0:\n  a: 1\n", "# c\n", "d0:\n  a:1\n"}
	c := contents[verifChoose("content", len(contents))]
	verifLabel("content", c)
	fromFile, fromStream := &hRec{}, &hRec{}
	ferr := ParseFileCallback(verifFile("f", c), NewDefaultConfig(), fromFile.cb)
	serr := ParseStreamCallback(strings.NewReader(c), NewDefaultConfig(), fromStream.cb)
	verifCover("parsed")
	verifAssert("record-count", len(fromFile.nodes) == len(fromStream.nodes))
	verifAssert("no-error-reported", (ferr == nil) == (serr == nil) && len(fromFile.errs) == len(fromStream.errs))
	if len(fromFile.nodes) == len(fromStream.nodes) {
		for i := range fromFile.nodes {
			a, b := fromFile.nodes[i], fromStream.nodes[i]
			verifAssert("record-header", a.Header == b.Header)
			verifAssert("entry-count", len(a.Elements) == len(b.Elements))
		}
	}
}

// Harness_parse_reentrant: a parse started from inside the callback of another parse (a consumer
// that loads a second file while it walks the first) does not disturb the outer one: the outer
// parse delivers what it delivers alone. Anything the parser keeps in package-level state (a
// shared line buffer, a cached record) would show here.
func Harness_parse_reentrant() {
	outer := "d0:\n  a: 1\n  b: 2\nd1:\n  c: 3\n# note\nd2:\n  e: 5\n"
	inners := []string{"x0:\n  p: 7\n  q: 8\nx1:\n  r: 9\n", "", "x:\n  " + strings.Repeat("z", 300) + ": 1\n"}
	inner := inners[verifChoose("inner", len(inners))]
	at := verifChoose("at-record", 3)
	alone := &hRec{}
	ParseStreamCallback(strings.NewReader(outer), NewDefaultConfig(), alone.cb)
	nested := &hRec{}
	innerRec := &hRec{}
	n := 0
	err := ParseStreamCallback(strings.NewReader(outer), NewDefaultConfig(), func(node *shared.ParserNode, perr error) (bool, error) {
		if n == at {
			ParseStreamCallback(strings.NewReader(inner), NewDefaultConfig(), innerRec.cb)
		}
		n++
		return nested.cb(node, perr)
	})
	verifCover("parsed")
	verifAssert("no-error-reported", err == nil && len(nested.errs) == 0)
	verifAssert("record-count", len(nested.nodes) == len(alone.nodes))
	if len(nested.nodes) == len(alone.nodes) {
		for i := range alone.nodes {
			a, b := alone.nodes[i], nested.nodes[i]
			verifAssert("record-header", a.Header == b.Header)
			verifAssert("entry-count", len(a.Elements) == len(b.Elements))
			if len(a.Elements) == len(b.Elements) {
				for j := range a.Elements {
					verifAssert("entry-name", a.Elements[j].Name == b.Elements[j].Name)
					verifAssert("entry-value", a.Elements[j].Value == b.Elements[j].Value)
				}
			}
		}
	}
}
