package parser

import (
	"strconv"
)

// Harness_parse_generated: whole files assembled from the documented grammar: R records,
// each with up to E entries, names and numbers symbolic, one layout variant per file, comment
// and blank lines interleaved, LF or CRLF, with or without a final end of line. The callback
// sequence must be exactly one node per heading, in order, with exactly its entries.
func Harness_parse_generated() {
	R := verifBound("R", 2)
	E := verifBound("E", 2)
	n := verifBound("n", 2)
	m := verifBound("m", 2)
	eol := "\n"
	if verifChoose("eol", 2) == 1 {
		eol = "\r\n"
	}
	indent := hPick("indent", hIndents, 3)
	sep := hPick("sep", hSeps, 3)
	q := ""
	if verifChoose("quoted", 2) == 1 {
		q = "\""
	}
	filler := verifChoose("filler", 3) // 0 none, 1 comment lines, 2 blank lines
	finalEOL := verifChoose("final-eol", 2) == 1

	src := ""
	var want []hNode
	if filler == 1 {
		src += "# leading comment" + eol
	}
	for r := 0; r < R; r++ {
		head := hName("head", n)
		node := hNode{header: head}
		src += head + ":" + eol
		ne := verifChoose("entries", E+1)
		for e := 0; e < ne; e++ {
			name := hName("name", n)
			num := hNum("num", m)
			verifAssume(verifPFOK(num))
			v, err := strconv.ParseFloat(num, 64)
			verifAssume(err == nil)
			src += indent + q + name + q + sep + num
			last := r == R-1 && e == ne-1
			if !last || finalEOL {
				src += eol
			}
			node.entries = append(node.entries, hEntry{name, v})
			if filler == 1 && !last {
				src += "#" + indent + "x: 1" + eol
			}
		}
		if filler == 2 && r < R-1 {
			src += eol + " \t" + eol
		}
		if ne == 0 && r == R-1 && !finalEOL {
			// heading line without end of line terminates the file
		} else if ne == 0 {
			// nothing: the heading line already ended with eol
		}
		want = append(want, node)
	}
	rec, err := hParse(src)
	verifCover("parsed")
	verifAssert("callback-error-not-returned", err == nil)
	verifAssert("no-error-reported", len(rec.errs) == 0)
	hCheckNodes(rec.nodes, want)
}
