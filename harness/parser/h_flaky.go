package parser

import (
	"errors"

	shared "github.com/aquilax/hranoprovod-cli/v3"
)

var hErrRead = errors.New("verif: read failure")

// hFlakyReader delivers data[:failAt] in chunks of at most chunk bytes, then fails with a
// non-EOF error (failAt >= len(data): never fails, ends with io.EOF through the real
// strings.Reader semantics re-implemented here).
type hFlakyReader struct {
	data   string
	pos    int
	failAt int
	chunk  int
}

func (r *hFlakyReader) Read(p []byte) (int, error) {
	limit := len(r.data)
	if r.failAt < limit {
		limit = r.failAt
	}
	if r.pos >= limit {
		if r.failAt < len(r.data) {
			return 0, hErrRead
		}
		return 0, hEOF
	}
	n := limit - r.pos
	if n > r.chunk {
		n = r.chunk
	}
	if n > len(p) {
		n = len(p)
	}
	copy(p, r.data[r.pos:r.pos+n])
	r.pos += n
	return n, nil
}

// Harness_parse_flaky: the reader starts failing at byte offset failAt of a well-formed
// file. If the file was not delivered completely the parser must return an error; if it
// reports success, every heading of the file has been delivered.
func Harness_parse_flaky() {
	R := 1 + verifChoose("records", verifBound("R", 3))
	src := ""
	for r := 0; r < R; r++ {
		src += "d" + string(rune('0'+r)) + ":\n  a: 1\n  b b: 2.5\n"
	}
	if verifChoose("final-eol", 2) == 0 {
		src = src[:len(src)-1]
	}
	failAt := int(verifInt("failAt", 0, int64(len(src))))
	chunk := []int{1, 7, 4096}[verifChoose("chunk", 3)]
	rd := &hFlakyReader{data: src, failAt: failAt, chunk: chunk}
	rec := &hRec{}
	err := ParseStreamCallback(rd, NewDefaultConfig(), rec.cb)
	if failAt < len(src) {
		verifCover("truncated")
		verifLabel("fault", "read-error-before-end")
		verifAssert("read-failure-is-error", err != nil)
	} else {
		verifCover("complete")
		verifLabel("fault", "none")
		verifAssert("complete-read-succeeds", err == nil)
	}
	if err == nil {
		verifAssert("success-means-all-records", len(rec.nodes) == R)
	}
	_ = shared.NewElements
}
