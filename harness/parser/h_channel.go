package parser

import (
	"io"
	"strings"
	"time"

	shared "github.com/aquilax/hranoprovod-cli/v3"
)

// Engine-only accessors to the trace of channel sends made by the code under test (the
// executor intercepts every verif* function by name; natively they are never called).
func verifEventCount() int { panic("engine only") }
func verifEventKind(i int, nodes chan *shared.ParserNode, errs chan error, done chan bool) int {
	panic("engine only")
}
func verifEventNode(i int) *shared.ParserNode { panic("engine only") }
func verifEventErr(i int) error              { panic("engine only") }
func verifOnSend(f func())                   { panic("engine only") }

type hEvent struct {
	kind int // 0 node, 1 error, 2 done
	node *shared.ParserNode
	err  error
}

// hObserve returns what a consumer with the given policy observes from Parser.ParseStream
// (policy 0: the documented receive loop, stop at the first error or Done; policy 1: keep
// receiving until Done), and whether the producer has returned by then.
//
// In the executor the producer's sends are a deterministic sequence (one producer, unbuffered
// channels, no receive/select/go inside the producer - checked on the SSA): every schedule
// shows the consumer the longest prefix of that sequence its policy accepts, so the sequence
// is computed once, symbolically. Natively real goroutines run with a watchdog.
func hObserve(src string, policy int) (seen []hEvent, producerDone bool, stuck bool) {
	return hObserveReader(func() io.Reader { return strings.NewReader(src) }, policy)
}

// hConfig is the parser configuration of the current harness run (default; the zero value; ';').
var hConfig = NewDefaultConfig()

func hObserveReader(mk func() io.Reader, policy int) (seen []hEvent, producerDone bool, stuck bool) {
	p := NewParser(hConfig)
	if verifEngine() {
		p.ParseStream(mk())
		n := verifEventCount()
		var all []hEvent
		for i := 0; i < n; i++ {
			k := verifEventKind(i, p.Nodes, p.Errors, p.Done)
			ev := hEvent{kind: k}
			if k == 0 {
				ev.node = verifEventNode(i)
			} else if k == 1 {
				ev.err = verifEventErr(i)
			}
			all = append(all, ev)
		}
		for i, ev := range all {
			seen = append(seen, ev)
			if ev.kind == 2 || (policy == 0 && ev.kind == 1) {
				// the consumer stops here; the producer has returned iff nothing is left to send
				return seen, i == len(all)-1, false
			}
		}
		// the producer returned without the consumer's stop condition: consumer blocks forever
		return seen, true, true
	}
	exited := make(chan struct{})
	go func() {
		p.ParseStream(mk())
		close(exited)
	}()
	watchdog := time.After(2 * time.Second)
	for {
		select {
		case n := <-p.Nodes:
			seen = append(seen, hEvent{kind: 0, node: n})
		case e := <-p.Errors:
			seen = append(seen, hEvent{kind: 1, err: e})
			if policy == 0 {
				return seen, hExited(exited), false
			}
		case <-p.Done:
			seen = append(seen, hEvent{kind: 2})
			return seen, hExited(exited), false
		case <-watchdog:
			return seen, hExited(exited), true
		}
	}
}

func hExited(exited chan struct{}) bool {
	select {
	case <-exited:
		return true
	case <-time.After(300 * time.Millisecond):
		return false
	}
}

// hFile builds a small file: up to three lines after a first heading, each drawn from
// {entry, malformed (no blank before value), second heading, blank}; bytes of names symbolic.
func hFile() string {
	L := verifBound("lines", 3)
	src := "h:\n"
	if verifChoose("no-heading", 2) == 1 {
		src = ""
	}
	for i := 0; i < L; i++ {
		switch verifChoose("line", 5) {
		case 0:
			src += "  " + hName("name", 1+verifChoose("n", 2)) + ": 1\n"
		case 1:
			src += "  " + hNoBlank("body", 1+verifChoose("k", 2)) + "\n"
		case 2:
			src += hName("head", 2) + ":\n"
		case 3:
			src += "\n"
		case 4:
			return src
		}
	}
	return src
}

// Harness_channel_protocol: the channel parser against the callback parser on the same input.
func Harness_channel_protocol() {
	hConfig = []Config{NewDefaultConfig(), {}, {CommentChar: ';'}}[verifChoose("config", 1+2*verifBound("configs", 0))]
	src := hFile()
	if verifBound("configs", 0) == 1 {
		src = "#1 burger:\n  bun: 1\n" + src
	}
	policy := verifChoose("policy", 2)
	// reference: the callback parser, stopping at its first error like ParseStream's callback
	ref := &hRec{}
	var firstErr error
	ParseStreamCallback(strings.NewReader(src), hConfig, func(n *shared.ParserNode, err error) (bool, error) {
		if err != nil {
			firstErr = err
			return true, err
		}
		ref.nodes = append(ref.nodes, n)
		return false, nil
	})
	seen, producerDone, stuck := hObserve(src, policy)
	hConfig = NewDefaultConfig()
	verifCover("observed")
	verifAssert("consumer-terminates", !stuck)
	if stuck {
		return
	}
	// records first, in order
	k := 0
	for k < len(seen) && seen[k].kind == 0 {
		k++
	}
	verifAssert("records-before-first-error", k == len(ref.nodes))
	if k == len(ref.nodes) {
		for i := 0; i < k; i++ {
			verifAssert("record-identical", seen[i].node.Header == ref.nodes[i].Header && len(seen[i].node.Elements) == len(ref.nodes[i].Elements))
		}
	}
	rest := seen[k:]
	if firstErr == nil {
		verifLabel("input", "no-error")
		verifAssert("completion-after-records", len(rest) == 1 && rest[0].kind == 2)
	} else {
		verifLabel("input", "with-error")
		verifAssert("first-error-follows-records", len(rest) >= 1 && rest[0].kind == 1 && rest[0].err.Error() == firstErr.Error())
		if policy == 1 {
			verifLabel("policy", "drain")
			nerr := 0
			for _, ev := range rest {
				if ev.kind == 1 {
					nerr++
				}
			}
			verifAssert("each-error-once", nerr == 1)
			verifAssert("done-is-last", rest[len(rest)-1].kind == 2)
		} else {
			verifLabel("policy", "stop-at-first-error")
		}
	}
	if policy == 1 {
		verifAssert("producer-exits-after-drain", producerDone)
	}
}

// Harness_channel_read_failure: the reader fails in the middle of the file. The callback parser
// reports the failure (after the records completed before it); the channel parser must show the
// consumer the same: those records, then that error, then (when draining) Done.
func Harness_channel_read_failure() {
	src := "d0:\n  a: 1\nd1:\n  b: 2\nd2:\n  c: 3\n"
	failAt := int(verifInt("failAt", 0, int64(len(src))))
	policy := verifChoose("policy", 2)
	mk := func() io.Reader { return &hFlakyReader{data: src, failAt: failAt, chunk: 4096} }
	ref := &hRec{}
	refErr := ParseStreamCallback(mk(), NewDefaultConfig(), ref.cb)
	seen, producerDone, stuck := hObserveReader(mk, policy)
	verifCover("observed")
	verifAssert("consumer-terminates", !stuck)
	if stuck {
		return
	}
	k := 0
	for k < len(seen) && seen[k].kind == 0 {
		k++
	}
	rest := seen[k:]
	if refErr == nil {
		verifLabel("input", "readable")
		verifAssert("records-before-first-error", k == len(ref.nodes))
		verifAssert("completion-after-records", len(rest) == 1 && rest[0].kind == 2)
	} else {
		verifLabel("input", "read-failure")
		verifAssert("read-error-delivered", len(rest) >= 1 && rest[0].kind == 1)
		if policy == 1 {
			verifAssert("done-is-last", rest[len(rest)-1].kind == 2)
		}
	}
	if policy == 1 {
		verifAssert("producer-exits-after-drain", producerDone)
	}
}

// hObserveFile is hObserve for Parser.ParseFile.
func hObserveFile(name string, policy int) (seen []hEvent, producerDone bool, stuck bool) {
	p := NewParser(NewDefaultConfig())
	if verifEngine() {
		p.ParseFile(name)
		n := verifEventCount()
		for i := 0; i < n; i++ {
			k := verifEventKind(i, p.Nodes, p.Errors, p.Done)
			ev := hEvent{kind: k}
			if k == 0 {
				ev.node = verifEventNode(i)
			} else if k == 1 {
				ev.err = verifEventErr(i)
			}
			seen = append(seen, ev)
			if ev.kind == 2 || (policy == 0 && ev.kind == 1) {
				return seen, i == n-1, false
			}
		}
		return seen, true, true
	}
	exited := make(chan struct{})
	go func() {
		p.ParseFile(name)
		close(exited)
	}()
	watchdog := time.After(2 * time.Second)
	for {
		select {
		case n := <-p.Nodes:
			seen = append(seen, hEvent{kind: 0, node: n})
		case e := <-p.Errors:
			seen = append(seen, hEvent{kind: 1, err: e})
			if policy == 0 {
				return seen, hExited(exited), false
			}
		case <-p.Done:
			seen = append(seen, hEvent{kind: 2})
			return seen, hExited(exited), false
		case <-watchdog:
			return seen, hExited(exited), true
		}
	}
}

// Harness_channel_parse_file: Parser.ParseFile against ParseFileCallback for a file that exists
// (well formed or with a malformed line), a file that does not exist and a directory: the
// consumer sees the callback parser's records, then completion or that error; a draining
// consumer sees Done last and the producer exits.
func Harness_channel_parse_file() {
	kind := verifChoose("file", 8)
	verifLabel("file", []string{"well-formed", "malformed", "missing", "directory", "byte-order-mark", "two-bytes", "one-byte", "named-pipe"}[kind])
	name := ""
	switch kind {
	case 0:
		name = verifFile("f", "d0:\n  a: 1\nd1:\n  b: 2\n")
	case 1:
		name = verifFile("f", "d0:\n  a: 1\nd1:\n  b:2\nd2:\n  c: 3\n")
	case 2:
		name = verifMissingFile("f")
	case 3:
		name = verifDir("f")
	case 4:
		name = verifFile("f", "\xef\xbb\xbf2011/07/17:\n  a: 1\n")
	case 5:
		name = verifFile("f", "a:")
	case 6:
		name = verifFile("f", "7")
	}
	policy := verifChoose("policy", 2)
	if kind == 7 {
		// a named pipe can be read once: the reference comes from the same text as a stream
		const text = "d0:\n  a: 1\nd1:\n  b: 2\n"
		ref := &hRec{}
		ParseStreamCallback(strings.NewReader(text), NewDefaultConfig(), ref.cb)
		seen, _, stuck := hObserveFile(verifFifo("f", text), policy)
		verifCover("observed")
		verifAssert("consumer-terminates", !stuck)
		k := 0
		for k < len(seen) && seen[k].kind == 0 {
			k++
		}
		verifAssert("records-before-first-error", k == len(ref.nodes))
		verifAssert("completion-after-records", !stuck && len(seen) == k+1 && seen[k].kind == 2)
		return
	}
	ref := &hRec{}
	var firstErr error
	refErr := ParseFileCallback(name, NewDefaultConfig(), func(n *shared.ParserNode, err error) (bool, error) {
		if err != nil {
			firstErr = err
			return true, err
		}
		ref.nodes = append(ref.nodes, n)
		return false, nil
	})
	if firstErr == nil {
		firstErr = refErr
	}
	seen, producerDone, stuck := hObserveFile(name, policy)
	verifCover("observed")
	verifAssert("consumer-terminates", !stuck)
	if stuck {
		return
	}
	k := 0
	for k < len(seen) && seen[k].kind == 0 {
		k++
	}
	rest := seen[k:]
	verifAssert("records-before-first-error", k == len(ref.nodes))
	if k == len(ref.nodes) {
		for i := 0; i < k; i++ {
			verifAssert("record-identical", seen[i].node.Header == ref.nodes[i].Header && len(seen[i].node.Elements) == len(ref.nodes[i].Elements))
		}
	}
	if firstErr == nil {
		verifAssert("completion-after-records", len(rest) == 1 && rest[0].kind == 2)
	} else {
		verifAssert("first-error-follows-records", len(rest) >= 1 && rest[0].kind == 1 && rest[0].err.Error() == firstErr.Error())
		if policy == 1 {
			verifLabel("policy", "drain")
			verifAssert("done-is-last", rest[len(rest)-1].kind == 2)
		}
	}
	if policy == 1 {
		verifAssert("producer-exits-after-drain", producerDone)
	}
}

// Harness_channel_two_parsers: a consumer that parses another stream (with the callback parser)
// each time it has received a record from the channel parser still observes the channel
// parser's own records: parsers do not share state. In the executor the consumer's reaction
// runs at the producer's send (the schedule in which the consumer is quick); natively real
// goroutines run.
func Harness_channel_two_parsers() {
	src := "d0:\n  apple: 150\n  pear: 2\nd1:\n  plum: 3\nd2:\n  grape: 40\n  melon: 1\nd3:\n  fig: 6\nd4:\n  date: 12\n"
	other := "x0:\n  banana: 50\n  cherry: 7\nx1:\n  kiwi: 9\nx2:\n  lemon: 11\n  lime: 13\nx3:\n  mango: 17\nx4:\n  nectarine: 19\n  orange: 23\nx5:\n  papaya: 29\n"
	verifLabel("schedule", "the consumer reacts while the producer is at a send")
	ref := &hRec{}
	ParseStreamCallback(strings.NewReader(src), NewDefaultConfig(), ref.cb)
	react := func() {
		r := &hRec{}
		ParseStreamCallback(strings.NewReader(other), NewDefaultConfig(), r.cb)
	}
	p := NewParser(NewDefaultConfig())
	var got []*shared.ParserNode
	sawDone, sawErr := false, false
	if verifEngine() {
		verifOnSend(react)
		p.ParseStream(strings.NewReader(src))
		verifOnSend(nil)
		for i := 0; i < verifEventCount(); i++ {
			switch verifEventKind(i, p.Nodes, p.Errors, p.Done) {
			case 0:
				got = append(got, verifEventNode(i))
			case 1:
				sawErr = true
			case 2:
				sawDone = true
			}
		}
	} else {
		go p.ParseStream(strings.NewReader(src))
		watchdog := time.After(2 * time.Second)
	loop:
		for {
			select {
			case n := <-p.Nodes:
				got = append(got, n)
				react()
			case <-p.Errors:
				sawErr = true
				react()
			case <-p.Done:
				sawDone = true
				break loop
			case <-watchdog:
				break loop
			}
		}
	}
	verifCover("observed")
	verifAssert("consumer-terminates", sawDone)
	verifAssert("records-before-first-error", !sawErr && len(got) == len(ref.nodes))
	if len(got) == len(ref.nodes) {
		for i := range got {
			same := got[i].Header == ref.nodes[i].Header && len(got[i].Elements) == len(ref.nodes[i].Elements)
			if same {
				for j := range got[i].Elements {
					same = same && got[i].Elements[j].Name == ref.nodes[i].Elements[j].Name && got[i].Elements[j].Value == ref.nodes[i].Elements[j].Value
				}
			}
			verifAssert("record-identical", same)
		}
	}
}
