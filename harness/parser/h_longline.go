package parser

import "strings"

// Harness_parse_long_line: a line longer than the scanner's 64 KiB buffer at the second of three
// records. The command must fail; it must not report success on a prefix of the file.
func Harness_parse_long_line() {
	long := "  " + strings.Repeat("x", 70000) + ": 1\n"
	src := "d1:\n  a: 1\n" + "d2:\n" + long + "d3:\n  b: 2\n"
	rec := &hRec{}
	err := ParseStreamCallback(strings.NewReader(src), NewDefaultConfig(), rec.cb)
	verifCover("long")
	verifLabel("fault", "line-longer-than-buffer")
	verifAssert("read-failure-is-error", err != nil)
	if err == nil {
		verifAssert("success-means-all-records", len(rec.nodes) == 3)
	}
}
