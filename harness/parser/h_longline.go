package parser

import "strings"

// Harness_parse_long_line: a line longer than the scanner's 64 KiB buffer at the second of three
// records. The command must fail; it must not report success on a prefix of the file.
func Harness_parse_long_line() {
	long := "  " + strings.Repeat("x", 70000) + ": 1\n"
	src := "d1:\n  a: 1\n" + "d2:\n" + long + "d3:\n  b: 2\n"
	rec := &hRec{}
	err := ParseStreamCallback(strings.NewReader(src), NewDefaultConfig(), rec.cb)
	verifCover("long")
	verifLabel("fault", "line-longer-than-buffer")
	verifAssert("read-failure-is-error", err != nil)
	if err == nil {
		verifAssert("success-means-all-records", len(rec.nodes) == 3)
	}
}

// Harness_parse_long_ok: lines just below, at and above the sizes at which buffered readers
// hand out their data in pieces (4096, 8192, 65536-1 bytes in total) are one line each: a long
// comment, a long note, a long entry name and a long heading parse to exactly the expected
// records (concrete supplement: the symbolic line-step runs bound lines to a few bytes).
func Harness_parse_long_ok() {
	sizes := []int{4094, 4095, 4096, 4097, 8192, 8193, 65000}
	n := sizes[verifChoose("size", len(sizes))]
	kind := verifChoose("kind", 4)
	verifLabel("long-line", []string{"comment", "note", "entry-name", "heading"}[kind])
	fill := strings.Repeat("lorem ipsum 12 ", n/15+1)[:n]
	name := strings.Repeat("n", n)
	src := "d1:\n  a: 1\n"
	switch kind {
	case 0:
		src += "#" + fill + "\n  b: 2\n"
	case 1:
		src += "  # " + fill + "\n  b: 2\n"
	case 2:
		src += "  " + name + ": 2\n"
	case 3:
		src += name + ":\n  b: 2\n"
	}
	src += "d3:\n  c: 3\n"
	rec := &hRec{}
	err := ParseStreamCallback(strings.NewReader(src), NewDefaultConfig(), rec.cb)
	verifCover("long")
	verifAssert("no-error-reported", err == nil && len(rec.errs) == 0)
	want := 2
	if kind == 3 {
		want = 3
	}
	verifAssert("record-count", len(rec.nodes) == want)
	if len(rec.nodes) != want {
		return
	}
	last := rec.nodes[want-1]
	verifAssert("record-header", rec.nodes[0].Header == "d1" && last.Header == "d3")
	verifAssert("entry-last-record", len(last.Elements) == 1 && last.Elements[0].Name == "c" && last.Elements[0].Value == 3)
	first := rec.nodes[0]
	switch kind {
	case 0, 1:
		verifAssert("entry-count", len(first.Elements) == 2 && first.Elements[1].Name == "b" && first.Elements[1].Value == 2)
	case 2:
		verifAssert("entry-name", len(first.Elements) == 2 && first.Elements[1].Name == name && first.Elements[1].Value == 2)
	case 3:
		verifAssert("entry-count", len(first.Elements) == 1)
		verifAssert("record-header", rec.nodes[1].Header == name && len(rec.nodes[1].Elements) == 1)
	}
	if kind == 1 {
		verifAssert("note-kept", first.Metadata != nil && len(*first.Metadata) == 1)
	}
}
