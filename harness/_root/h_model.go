package hranoprovod

import "time"

// Shared input generators and reference models for the reporter harnesses (exported so that
// harnesses in other packages can use them; injected by overlay only).

const (
	HR0 = "b/r0"   // recipe
	HR1 = "a/r1/s" // recipe (sorts before HR0)
	HX  = "x"      // basic element, also loggable directly
	HY  = "y"
	HU  = "u/v" // food unknown to the book
)

type HIng struct {
	Name string
	Amt  float64
}

// HBook is a resolved book: each recipe maps to a sorted list of (basic element, amount).
type HBook struct {
	Names []string
	Rec   map[string][]HIng
}

func (b *HBook) Has(n string) bool { _, ok := b.Rec[n]; return ok }

// HGenBook builds a resolved book over recipes HR0, HR1 with symbolic amounts. Shapes: each
// recipe's element list is one of {x}, {x,y}, {y}, {} (by bound "bookshapes": 2 or 4 per recipe).
func HGenBook() (DBNodeMap, *HBook) {
	db := NewDBNodeMap()
	ref := &HBook{Rec: map[string][]HIng{}}
	ns := verifBound("bookshapes", 2)
	unit := verifBound("unitamounts", 0) == 1 // amounts are the constant 1: contributions are the quantities themselves
	amount := func() float64 {
		if unit {
			return 1
		}
		return verifFloat("amt")
	}
	for _, r := range []string{HR0, HR1} {
		els := NewElements()
		var ings []HIng
		shape := verifChoose("shape", ns)
		if shape == 0 || shape == 1 {
			a := amount()
			els.Add(HX, a)
			ings = append(ings, HIng{HX, a})
		}
		if shape == 1 || shape == 2 {
			a := amount()
			els.Add(HY, a)
			ings = append(ings, HIng{HY, a})
		}
		db.Push(&DBNode{Header: r, Elements: els})
		ref.Names = append(ref.Names, r)
		ref.Rec[r] = ings
	}
	return db, ref
}

var HFoodUniverse = []string{HR0, HR1, HX, HU}

// HGenRawDay builds the entries of one log day as written in the file (duplicates possible).
func HGenRawDay(E int) Elements {
	els := NewElements()
	n := verifChoose("entries", E+1)
	universe := HFoodUniverse
	if verifBound("casepair", 0) == 1 {
		// a name that differs from HX only in letter case (orderings that fold case tie on it)
		universe = append(append([]string{}, HFoodUniverse...), "X")
	}
	for i := 0; i < n; i++ {
		name := universe[verifChoose("food", len(universe))]
		els.Add(name, verifFloat("qty"))
	}
	return els
}

// HFood is a distinct food of a day with its summed quantity.
type HFood struct {
	Name string
	Qty  float64
	seen bool
}

// HDistinct is the reference for duplicate merging: distinct foods in first-appearance
// order, quantities added left to right.
func HDistinct(raw Elements) []HFood {
	var res []HFood
	// order of first appearance ...
	for _, e := range raw {
		found := false
		for i := range res {
			if res[i].Name == e.Name {
				found = true
			}
		}
		if !found {
			res = append(res, HFood{Name: e.Name})
		}
	}
	// ... quantities summed from the last entry to the first (deliberately not the
	// implementation's order: over the reals the sum does not depend on it)
	for k := len(raw) - 1; k >= 0; k-- {
		for i := range res {
			if res[i].Name == raw[k].Name {
				if res[i].seen {
					res[i].Qty += raw[k].Value
				} else {
					res[i].Qty, res[i].seen = raw[k].Value, true
				}
			}
		}
	}
	return res
}

func hDistinctMirror(raw Elements) []HFood {
	var res []HFood
	for _, e := range raw {
		found := false
		for i := range res {
			if res[i].Name == e.Name {
				res[i].Qty += e.Value
				found = true
				break
			}
		}
		if !found {
			res = append(res, HFood{e.Name, e.Value, true})
		}
	}
	return res
}

// HContrib is one contribution (element, amount) of a logged food, in report order.
type HContrib struct {
	Food string
	Elem string
	Amt  float64
}

// HContributions lists, per distinct food in order, quantity x each resolved element of the
// food, or the food itself when the book does not define it.
func HContributions(foods []HFood, book *HBook) []HContrib {
	var res []HContrib
	for _, f := range foods {
		if book.Has(f.Name) {
			for _, ing := range book.Rec[f.Name] {
				res = append(res, HContrib{f.Name, ing.Name, ing.Amt * f.Qty})
			}
		} else {
			res = append(res, HContrib{f.Name, f.Name, f.Qty})
		}
	}
	return res
}

// HTotal is the reference total of one element.
type HTotal struct {
	Name     string
	Pos, Neg float64
	HasPos   bool
	HasNeg   bool
}

// HTotals accumulates contributions in order into positive and negative registers per element
// (first contribution assigns, later ones add) and returns them sorted by name.
func HTotals(cs []HContrib) []HTotal {
	var res []HTotal
	// element order of first contribution is irrelevant (sorted below); registers are summed
	// from the last contribution to the first (not the implementation's order)
	for k := len(cs) - 1; k >= 0; k-- {
		c := cs[k]
		idx := -1
		for i := range res {
			if res[i].Name == c.Elem {
				idx = i
			}
		}
		if idx < 0 {
			res = append(res, HTotal{Name: c.Elem})
			idx = len(res) - 1
		}
		t := &res[idx]
		if c.Amt < 0 {
			if t.HasNeg {
				t.Neg += c.Amt
			} else {
				t.Neg, t.HasNeg = c.Amt, true
			}
		} else {
			if t.HasPos {
				t.Pos += c.Amt
			} else {
				t.Pos, t.HasPos = c.Amt, true
			}
		}
	}
	// insertion sort by name
	for i := 1; i < len(res); i++ {
		for j := i; j > 0 && res[j].Name < res[j-1].Name; j-- {
			res[j], res[j-1] = res[j-1], res[j]
		}
	}
	return res
}

// HTime returns a fixed UTC instant for day index i (the date itself is not the subject).
func HTime(i int) time.Time {
	return time.Unix(1609459200+int64(i)*86400, 0).UTC()
}
