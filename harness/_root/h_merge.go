package hranoprovod

// Harness_merge_duplicates: NewLogNodeFromElements on a day of up to E entries over three food
// names (every repetition pattern): each distinct food once, in first-appearance order, with the
// sum of its quantities.
func Harness_merge_duplicates() {
	E := verifBound("E", 5)
	names := []string{"a/x", "b", "c/y/z"}
	raw := NewElements()
	n := verifChoose("entries", E+1)
	for i := 0; i < n; i++ {
		raw.Add(names[verifChoose("food", len(names))], verifFloat("qty"))
	}
	want := HDistinct(raw)
	ln, err := NewLogNodeFromElements(HTime(0), raw, nil)
	verifCover("merged")
	verifAssert("lognode-no-error", err == nil && ln != nil)
	if err != nil || ln == nil {
		return
	}
	verifAssert("food-count", len(ln.Elements) == len(want))
	if len(ln.Elements) == len(want) {
		for i, w := range want {
			verifAssert("food-name-order", ln.Elements[i].Name == w.Name)
			verifAssert("food-quantity", verifFloatEq(ln.Elements[i].Value, w.Qty))
		}
	}
}
