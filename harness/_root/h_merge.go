package hranoprovod

// Harness_merge_duplicates: NewLogNodeFromElements on a day of up to E entries over three food
// names (every repetition pattern): each distinct food once, in first-appearance order, with the
// sum of its quantities.
func Harness_merge_duplicates() {
	E := verifBound("E", 5)
	names := []string{"a/x", "b", "c/y/z"}
	raw := NewElements()
	n := verifChoose("entries", E+1)
	for i := 0; i < n; i++ {
		raw.Add(names[verifChoose("food", len(names))], verifFloat("qty"))
	}
	want := HDistinct(raw)
	ln, err := NewLogNodeFromElements(HTime(0), raw, nil)
	verifCover("merged")
	verifAssert("lognode-no-error", err == nil && ln != nil)
	if err != nil || ln == nil {
		return
	}
	verifAssert("food-count", len(ln.Elements) == len(want))
	if len(ln.Elements) == len(want) {
		for i, w := range want {
			verifAssert("food-name-order", ln.Elements[i].Name == w.Name)
			verifAssert("food-quantity", verifFloatEq(ln.Elements[i].Value, w.Qty))
		}
	}
}

// Harness_merge_many: a day that lists K distinct foods (K up to 20: past every small
// capacity a merged list may start with) and repeats one of the foods listed so far after
// pos of them: each distinct food once, in first-appearance order, and the repeated food
// carries the sum of its two quantities.
func Harness_merge_many() {
	K := verifBound("K", 20)
	names := make([]string, K)
	for i := range names {
		names[i] = "c" + string(rune('a'+i/5)) + "/f" + string(rune('a'+i))
	}
	pos := 1 + verifChoose("repeat-after", K)
	which := verifChoose("repeated-food", pos)
	raw := NewElements()
	for i := 0; i < K; i++ {
		raw.Add(names[i], verifFloat("qty"))
		if i+1 == pos {
			raw.Add(names[which], verifFloat("again"))
		}
	}
	want := HDistinct(raw)
	ln, err := NewLogNodeFromElements(HTime(0), raw, nil)
	verifCover("merged")
	verifAssert("lognode-no-error", err == nil && ln != nil)
	if err != nil || ln == nil {
		return
	}
	verifAssert("food-count", len(ln.Elements) == K && len(want) == K)
	if len(ln.Elements) == len(want) {
		for i, w := range want {
			verifAssert("food-name-order", ln.Elements[i].Name == w.Name)
			verifAssert("food-quantity", verifFloatEq(ln.Elements[i].Value, w.Qty))
		}
	}
}
