package main

// Harness_app_pipeline: recipe book and log as TEXT with symbolic number tokens, through the
// whole application (flag handling, Action closures, real parser, real resolver, reporters)
// for ten commands, each compared with a reference model computed from the tokens' values:
// nested recipes as sums over ingredient paths of products, duplicate foods of a day merged in
// first-appearance order, signed totals, period totals, quantities, CSV rows, unresolved names.

import (
	shared "github.com/aquilax/hranoprovod-cli/v3"
)

const (
	hpR0 = "a/r1"   // a recipe whose name is also a category prefix of the other recipe's name
	hpR1 = "a/r1/s" // sorts after hpR0
	hpX  = "x"
	hpY  = "y"
	hpU  = "u/v"
)

var hpUniverse = []string{hpR0, hpR1, hpX, hpY, hpU}

type hpIng struct {
	name string
	v    float64
}

type hpRecipe struct {
	name string
	ings []hpIng
}

// hpNum: a number token (fixed text) whose value - what strconv.ParseFloat returns for it - is
// a solver variable. How the parser isolates a number token from symbolic bytes is C04's
// subject; here the value is what matters.
func hpNum(tag string) (string, float64) { return verifNum(tag) }

// hpResolve: reference resolution - for every basic element, the sum over all ingredient paths
// of the product of the quantities along the path (recursion on the reference graph; r1 may
// use r0, r0 uses only basic elements), summed from the last ingredient to the first.
func hpResolve(book []hpRecipe, name string) []shared.HIng {
	var rec *hpRecipe
	for i := range book {
		if book[i].name == name {
			rec = &book[i]
		}
	}
	amt := map[string]float64{}
	has := map[string]bool{}
	add := func(n string, v float64) {
		if has[n] {
			amt[n] += v
		} else {
			amt[n], has[n] = v, true
		}
	}
	for k := len(rec.ings) - 1; k >= 0; k-- {
		ing := rec.ings[k]
		isRecipe := false
		for i := range book {
			if book[i].name == ing.name {
				isRecipe = true
			}
		}
		if isRecipe {
			for _, sub := range hpResolve(book, ing.name) {
				add(sub.Name, sub.Amt*ing.v)
			}
		} else {
			add(ing.name, ing.v)
		}
	}
	var res []shared.HIng
	for _, n := range []string{hpU, hpX, hpY} { // sorted by name
		if has[n] {
			res = append(res, shared.HIng{Name: n, Amt: amt[n]})
		}
	}
	return res
}

func hpWords(out string) []string {
	res := []string{}
	for _, w := range verifWords(out) {
		for _, n := range hpUniverse {
			if w == n || w == n+":" {
				res = append(res, n)
			}
		}
	}
	return res
}

// hpHeadings counts the output lines that begin with one of the log's dates.
func hpHeadings(out string) int {
	n := 0
	for _, l := range verifLines(out) {
		if verifHasPrefix(l, "2021/01/01") || verifHasPrefix(l, "2021/01/02") {
			n++
		}
	}
	return n
}

func hpCheck(tag, out string, names []string, nums []float64) {
	gotNames, gotNums := hpWords(out), verifNums(out)
	verifAssert(tag+":names-count", len(gotNames) == len(names))
	if len(gotNames) == len(names) {
		for i := range names {
			verifAssert(tag+":names-order", gotNames[i] == names[i])
		}
	}
	verifAssert(tag+":numbers-count", len(gotNums) == len(nums))
	if len(gotNums) == len(nums) {
		for i := range nums {
			verifAssert(tag+":number", verifFloatEq(gotNums[i], nums[i]))
		}
	}
}

func Harness_app_pipeline() {
	E := verifBound("E", 2)
	// ---- the book as text
	var book []hpRecipe
	posBook := verifBound("posbook", 0) == 1 // book amounts assumed positive: the sign of a contribution is the sign of the logged quantity
	// with bound zeroamt one chosen ingredient has the amount 0 exactly (the others stay positive)
	zeroAt, ingNo := -1, 0
	if verifBound("zeroamt", 0) == 1 {
		zeroAt = verifChoose("zero-amount", 6) - 1
	}
	ing := func(n string) (string, hpIng) {
		tok, v := hpNum("amt")
		if ingNo == zeroAt {
			verifAssume(v == 0)
		} else if posBook {
			verifAssume(v > 0)
		}
		ingNo++
		return "  " + n + ": " + tok + "\n", hpIng{n, v}
	}
	mkRecipe := func(name string, names []string) (string, hpRecipe) {
		txt := name + ":\n"
		r := hpRecipe{name: name}
		for _, n := range names {
			t, i := ing(n)
			txt += t
			r.ings = append(r.ings, i)
		}
		return txt, r
	}
	r0shapes := [][]string{{hpX}, {hpY, hpX}, {hpX, hpX}, {}}
	r1shapes := [][]string{{hpR0}, {hpX, hpR0}, {hpR0, hpY, hpR0}, {hpY}}
	s0 := verifChoose("r0-shape", verifBound("shapes", 3))
	s1 := verifChoose("r1-shape", verifBound("shapes", 3))
	t0, rec0 := mkRecipe(hpR0, r0shapes[s0])
	t1, rec1 := mkRecipe(hpR1, r1shapes[s1])
	dbText := ""
	if verifChoose("declared-first", 2) == 0 { // forward and backward references
		dbText, book = t0+t1, []hpRecipe{rec0, rec1}
	} else {
		dbText, book = t1+"\n# comment\n"+t0, []hpRecipe{rec1, rec0}
	}
	ref := &shared.HBook{Rec: map[string][]shared.HIng{}}
	for _, r := range book {
		ref.Names = append(ref.Names, r.name)
		ref.Rec[r.name] = hpResolve(book, r.name)
	}
	// ---- the log as text: two days (the second possibly on the same date)
	// the two day blocks: in date order, on the same date, or the later date first
	dates := [][]string{{"2021/01/01", "2021/01/02"}, {"2021/01/01", "2021/01/01"}, {"2021/01/02", "2021/01/01"}}[verifChoose("same-date", 3)]
	logText := ""
	var days []shared.Elements
	loggable := []string{hpR0, hpR1, hpX, hpU}
	for d := 0; d < 2; d++ {
		logText += dates[d] + ":\n"
		raw := shared.NewElements()
		n := E
		if d == 1 {
			n = 1
		}
		k := verifChoose("entries", n+1)
		if d == 0 && k == 0 {
			k = 1
		}
		for i := 0; i < k; i++ {
			name := loggable[verifChoose("food", len(loggable))]
			tok, v := hpNum("qty")
			logText += "  " + name + ": " + tok + "\n"
			raw.Add(name, v)
		}
		days = append(days, raw)
	}
	if verifBound("crlf", 0) == 1 {
		// the same files saved with CRLF line endings
		logText, dbText = verifReplaceAll(logText, "\n", "\r\n"), verifReplaceAll(dbText, "\n", "\r\n")
	}
	logName, dbName := verifFile("log", logText), verifFile("db", dbText)
	base := []string{"--logfile=" + logName, "--database=" + dbName, "--no-color"}
	run := func(tag string, args ...string) (string, bool) {
		out, err := hApp(-1, append(append([]string{}, base...), args...)...)
		verifAssert(tag+":runs", err == nil)
		return out, err == nil
	}
	verifCover("ran")
	// one command per path: forks inside one command (sign tests, sorting by amount) do not
	// multiply with those of the others
	hpCmds := []string{"register", "totals", "balance-single", "csv-log", "csv-resolved", "element-total", "quantity", "unresolved", "print",
		"register-template", "register-left-aligned", "register-totals-only", "register-no-totals", "summary",
		"quantity-desc", "element-total-desc",
		"register-single-element", "register-group-by-food", "register-single-food"}
	ci := verifBound("command", -1)
	if ci < 0 {
		ci = verifChoose("command", len(hpCmds))
	}
	cmd := hpCmds[ci]
	verifLabel("site", cmd)

	// ---- register (old reporter): per day foods, ingredients, signed totals
	contribs := func() (perDay [][]shared.HContrib, all []shared.HContrib) {
		for _, raw := range days {
			cs := shared.HContributions(shared.HDistinct(raw), ref)
			perDay = append(perDay, cs)
			all = append(all, cs...)
		}
		return
	}
	regArgs := map[string][]string{
		"register":              {"reg", "--use-old-reg-reporter"},
		"register-template":     {"reg"},
		"register-left-aligned": {"reg", "--internal-template-name=left-aligned"},
		"register-totals-only":  {"reg", "--totals-only"},
		"register-no-totals":    {"reg", "--no-totals"},
	}
	if args, isReg := regArgs[cmd]; !isReg {
	} else if out, ok := run(cmd, args...); ok {
		var regNames []string
		var regNums []float64
		perDay, _ := contribs()
		for d, raw := range days {
			cs := perDay[d]
			k := 0
			for _, f := range shared.HDistinct(raw) {
				if cmd == "register-totals-only" {
					break
				}
				regNames = append(regNames, f.Name)
				regNums = append(regNums, f.Qty)
				for k < len(cs) && cs[k].Food == f.Name {
					regNames = append(regNames, cs[k].Elem)
					regNums = append(regNums, cs[k].Amt)
					k++
				}
			}
			if cmd == "register-no-totals" {
				continue
			}
			for _, t := range shared.HTotals(cs) {
				regNames = append(regNames, t.Name)
				regNums = append(regNums, t.Pos, t.Neg, t.Pos+t.Neg)
			}
		}
		hpCheck(cmd, out, regNames, regNums)
		// every day is shown, also a day without entries, whatever the totals options
		verifAssert(cmd+":one-heading-per-day", hpHeadings(out) == len(days))
	}

	// ---- register -s x: one row per day that contributes to x: positive part, minus the negative
	// part, their sum - and the rows add up to the period total of x
	if cmd != "register-single-element" {
	} else if out, ok := run(cmd, "reg", "-s", hpX); ok {
		var names []string
		var nums []float64
		perDay, _ := contribs()
		for d := range days {
			var xs []shared.HContrib
			for _, c := range perDay[d] {
				if c.Elem == hpX {
					xs = append(xs, c)
				}
			}
			for _, t := range shared.HTotals(xs) {
				names = append(names, t.Name)
				nums = append(nums, t.Pos, -1*t.Neg, t.Pos+t.Neg)
			}
		}
		hpCheck(cmd, out, names, nums)
	}

	// ---- register -s x -g: per food (sorted by name), what it contributed to x over the period
	if cmd != "register-group-by-food" {
	} else if out, ok := run(cmd, "reg", "-s", hpX, "-g"); ok {
		perDay, _ := contribs()
		var names []string
		var nums []float64
		for _, food := range []string{hpR0, hpR1, hpU, hpX} { // sorted by name
			sum, any := 0.0, false
			for d := len(days) - 1; d >= 0; d-- {
				for k := len(perDay[d]) - 1; k >= 0; k-- {
					if c := perDay[d][k]; c.Food == food && c.Elem == hpX {
						if any {
							sum += c.Amt
						} else {
							sum, any = c.Amt, true
						}
					}
				}
			}
			if any {
				names = append(names, food)
				nums = append(nums, sum)
			}
		}
		hpCheck(cmd, out, names, nums)
	}

	// ---- register -f a/r1: the logged foods whose name matches, per day, merged, in order
	if cmd != "register-single-food" {
	} else if out, ok := run(cmd, "reg", "-f", "^a/r1"); ok {
		var names []string
		var nums []float64
		for _, raw := range days {
			for _, f := range shared.HDistinct(raw) {
				if f.Name == hpR0 || f.Name == hpR1 {
					names = append(names, f.Name)
					nums = append(nums, f.Qty)
				}
			}
		}
		hpCheck(cmd, out, names, nums)
		verifAssert(cmd+":one-heading-per-row", hpHeadings(out) == len(names))
	}

	// ---- summary DATE: the totals (positive register) and the foods of exactly that day
	if cmd != "summary" {
	} else if out, ok := run("summary", "summary", "2021/01/01"); ok {
		var names []string
		var nums []float64
		perDay, _ := contribs()
		for d, raw := range days {
			if dates[d] != "2021/01/01" {
				continue
			}
			for _, t := range shared.HTotals(perDay[d]) {
				names = append(names, t.Name)
				nums = append(nums, t.Pos)
			}
			for _, f := range shared.HDistinct(raw) {
				names = append(names, f.Name)
				nums = append(nums, f.Qty)
			}
		}
		hpCheck("summary", out, names, nums)
	}

	// ---- report totals: the signed period totals = the contributions of all days
	if cmd != "totals" {
	} else if out, ok := run("totals", "report", "totals"); ok {
		_, all := contribs()
		var names []string
		var nums []float64
		for _, t := range shared.HTotals(all) {
			names = append(names, t.Name)
			nums = append(nums, t.Pos, t.Neg, t.Pos+t.Neg)
		}
		hpCheck("totals", out, names, nums)
	}

	// ---- balance --single-element x: grand total = period total of x
	if cmd != "balance-single" {
	} else if out, ok := run("balance-single", "bal", "-s", hpX); ok {
		nums := verifNums(out)
		want := 0.0 // the plain sum of all contributions to x (no sign registers involved)
		_, all := contribs()
		for k := len(all) - 1; k >= 0; k-- {
			if all[k].Elem == hpX {
				want += all[k].Amt
			}
		}
		verifAssert("balance-single:grand-total=period-total", len(nums) > 0 && verifFloatEq(nums[len(nums)-1], want))
	}

	// ---- csv log: one row per (day, distinct food) with the summed quantity
	if cmd != "csv-log" {
	} else if out, ok := run("csv-log", "csv", "log"); ok {
		recs := verifCSV(out)
		n := 0
		for _, raw := range days {
			n += len(shared.HDistinct(raw))
		}
		verifAssert("csv-log:row-count", len(recs) == n)
		if len(recs) == n {
			i := 0
			for d, raw := range days {
				for _, f := range shared.HDistinct(raw) {
					if len(recs[i]) == 3 {
						nums := verifNums(recs[i][2])
						verifAssert("csv-log:row", recs[i][0] == "2021-01-0"+string(dates[d][9]) && recs[i][1] == f.Name && len(nums) == 1 && verifFloatEq(nums[0], f.Qty))
					} else {
						verifAssert("csv-log:row", false)
					}
					i++
				}
			}
		}
	}

	// ---- csv database-resolved: one row per (recipe, resolved element), sorted
	if cmd != "csv-resolved" {
	} else if out, ok := run("csv-resolved", "csv", "database-resolved"); ok {
		recs := verifCSV(out)
		type row struct {
			r, e string
			v    float64
		}
		var want []row
		for _, r := range []string{hpR0, hpR1} { // sorted: "a/r1" < "a/r1/s"
			for _, i := range ref.Rec[r] {
				want = append(want, row{r, i.Name, i.Amt})
			}
		}
		verifAssert("csv-resolved:row-count", len(recs) == len(want))
		if len(recs) == len(want) {
			for i, w := range want {
				if len(recs[i]) == 3 {
					nums := verifNums(recs[i][2])
					verifAssert("csv-resolved:row", recs[i][0] == w.r && recs[i][1] == w.e && len(nums) == 1 && verifFloatEq(nums[0], w.v))
				} else {
					verifAssert("csv-resolved:row", false)
				}
			}
		}
	}

	// ---- report element-total x: one row per recipe containing x, with the resolved amount
	hpOrdered := func(tag string, nums []float64, desc bool) {
		for k := 0; k+1 < len(nums); k++ {
			if desc {
				verifAssert(tag+":rows-in-descending-order", nums[k] >= nums[k+1])
			} else {
				verifAssert(tag+":rows-in-ascending-order", nums[k] <= nums[k+1])
			}
		}
	}
	if cmd != "element-total" && cmd != "element-total-desc" {
	} else if out, ok := run(cmd, map[string][]string{"element-total": {"report", "element-total", hpX}, "element-total-desc": {"report", "element-total", "--desc", hpX}}[cmd]...); ok {
		names, nums := hpWords(out), verifNums(out)
		hpOrdered("element-total", nums, cmd == "element-total-desc")
		n := 0
		for _, r := range []string{hpR0, hpR1} {
			for _, i := range ref.Rec[r] {
				if i.Name == hpX {
					n++
					found := false
					for k := range names {
						if names[k] == r && k < len(nums) && verifFloatEq(nums[k], i.Amt) {
							found = true
						}
					}
					verifAssert("element-total:row-of-recipe", found)
				}
			}
		}
		verifAssert("element-total:row-count", len(names) == n && len(nums) == n)
	}

	// ---- report quantity: per food, the sum of its logged quantities over the period
	if cmd != "quantity" && cmd != "quantity-desc" {
	} else if out, ok := run(cmd, map[string][]string{"quantity": {"report", "quantity"}, "quantity-desc": {"report", "quantity", "--desc"}}[cmd]...); ok {
		names, nums := hpWords(out), verifNums(out)
		hpOrdered("quantity", nums, cmd == "quantity-desc")
		var allRaw shared.Elements
		for _, raw := range days {
			allRaw = append(allRaw, raw...)
		}
		foods := shared.HDistinct(allRaw)
		verifAssert("quantity:row-count", len(names) == len(foods) && len(nums) == len(foods))
		if len(names) == len(foods) && len(nums) == len(foods) {
			for _, f := range foods {
				found := false
				for k := range names {
					if names[k] == f.Name && verifFloatEq(nums[k], f.Qty) {
						found = true
					}
				}
				verifAssert("quantity:row-of-food", found)
			}
		}
	}

	// ---- report unresolved: exactly the logged foods the book does not define
	if cmd != "unresolved" {
	} else if out, ok := run("unresolved", "report", "unresolved"); ok {
		names := hpWords(out)
		want := map[string]bool{}
		for _, raw := range days {
			for _, e := range raw {
				if !ref.Has(e.Name) {
					want[e.Name] = true
				}
			}
		}
		verifAssert("unresolved:count", len(names) == len(want))
		for _, n := range names {
			verifAssert("unresolved:is-logged-and-undefined", want[n])
		}
	}

	// ---- print: the day's foods merged, in order
	if cmd != "print" {
	} else if out, ok := run("print", "print"); ok {
		var names []string
		var nums []float64
		for _, raw := range days {
			for _, f := range shared.HDistinct(raw) {
				names = append(names, f.Name)
				nums = append(nums, f.Qty)
			}
		}
		hpCheck("print", out, names, nums)
		verifAssert("print:one-heading-per-day", hpHeadings(out) == len(days))
	}
}
