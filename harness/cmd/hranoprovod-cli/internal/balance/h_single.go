package balance

import (
	"strings"

	"github.com/aquilax/hranoprovod-cli/cmd/hranoprovod-cli/v3/internal/reporter"
	shared "github.com/aquilax/hranoprovod-cli/v3"
)

// Harness_balance_single: balance --single-element X in every display mode. Each logged food the
// book defines with element X gets a row at its category path with quantity x resolved amount
// (zero amounts included), ancestors carry the sums, the grand total is the sum of the top rows.
func Harness_balance_single() {
	F := verifBound("F", 2)
	C := verifBound("catalogue", 6)
	var foods []string
	next := 0
	for len(foods) < F {
		c := verifChoose("food", C-next+1)
		if c == C-next {
			break
		}
		foods = append(foods, hCatalogue[next+c])
		next += c + 1
	}
	verifAssume(len(foods) >= 1)
	db := shared.NewDBNodeMap()
	amt := map[string]float64{}
	hasX := map[string]bool{}
	for _, f := range foods {
		els := shared.NewElements()
		switch verifChoose("book", 3) {
		case 0: // defines X
			a := verifFloat("amt")
			els.Add("X", a)
			els.Add("other", 1)
			amt[f], hasX[f] = a, true
			db.Push(&shared.DBNode{Header: f, Elements: els})
		case 1: // defined without X
			els.Add("other", 2)
			db.Push(&shared.DBNode{Header: f, Elements: els})
		case 2: // not in the book
		}
	}
	qty := map[string]float64{}
	els := shared.NewElements()
	for _, f := range foods {
		q := verifFloat("q")
		qty[f] = q
		els.Add(f, q)
	}
	mode := verifChoose("mode", 3)
	verifLabel("mode", []string{"default", "collapse-last", "collapse"}[mode])
	cfg := reporter.NewDefaultConfig()
	cfg.SingleElement = "X"
	cfg.CollapseLast = mode == 1
	cfg.Collapse = mode == 2
	sink := newVerifSink(-1)
	cfg.Output = sink
	r := getReporter(cfg, db)
	ln, _ := shared.NewLogNodeFromElements(shared.HTime(0), els, nil)
	verifAssert("process-ok", r.Process(ln) == nil)
	verifAssert("flush-ok", r.Flush() == nil)
	rows, ok := hParseRows(sink.String())
	verifCover("printed")
	verifAssert("rows-well-formed", ok && len(rows) >= 1)
	if !ok || len(rows) < 1 {
		return
	}
	grand := rows[len(rows)-1]
	rows = rows[:len(rows)-1]
	leaves, all := hLeaves(rows)
	// expected leaves: the foods with X that are not a prefix of another such food
	var withX []string
	for _, f := range foods {
		if hasX[f] {
			withX = append(withX, f)
		}
	}
	prefixFree := true
	for _, p := range withX {
		for _, q := range withX {
			if hIsPrefixPath(p, q) {
				prefixFree = false
			}
		}
	}
	top, total := 0.0, 0.0
	for i, r := range rows {
		if r.depth == 0 {
			top += rows[i].amt
		}
	}
	for _, f := range withX {
		total += qty[f] * amt[f]
	}
	verifAssert("single-grand-total=sum-of-top-rows", verifFloatEq(grand.amt, top))
	verifAssert("single-grand-total=sum-of-foods", verifFloatEq(grand.amt, total))
	if !prefixFree {
		return
	}
	// withX is in catalogue order, which is not path order: sort
	for i := 1; i < len(withX); i++ {
		for j := i; j > 0 && withX[j] < withX[j-1]; j-- {
			withX[j], withX[j-1] = withX[j-1], withX[j]
		}
	}
	verifAssert("single-every-food-with-element-shown", len(leaves) == len(withX))
	if len(leaves) == len(withX) {
		for i, f := range withX {
			verifAssert("single-leaf-path", leaves[i].path == f)
			verifAssert("single-leaf-amount", verifFloatEq(leaves[i].amt, qty[f]*amt[f]))
		}
	}
	_ = all
	_ = strings.Join
}
