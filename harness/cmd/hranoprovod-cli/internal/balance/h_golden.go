package balance

import (
	"strings"
	"time"

	"github.com/aquilax/hranoprovod-cli/cmd/hranoprovod-cli/v3/internal/report"
	"github.com/aquilax/hranoprovod-cli/cmd/hranoprovod-cli/v3/internal/reporter"
	"github.com/aquilax/hranoprovod-cli/v3/filter"
	"github.com/aquilax/hranoprovod-cli/v3/parser"
	"github.com/aquilax/hranoprovod-cli/v3/resolver"
)

// Harness_golden_concrete: translator validation on the repository's own test inputs. The
// commands run, all-concrete, on testAssets/food.yaml and log.yaml (read from the working tree
// at load time) and must print the repository's golden files byte for byte - in the executor
// (which is then a plain SSA interpreter, fmt rendering natively) exactly as natively.
func Harness_golden_concrete() {
	db, log := hAssets["food.yaml"], hAssets["log.yaml"]
	verifAssume(db != "" && log != "")
	type tc struct {
		golden string
		set    func(c *reporter.Config, f *filter.Config)
	}
	begin, _ := time.Parse("2006/01/02", "2021/01/25")
	cases := []tc{
		{"balance-no-extra-options.txt", func(c *reporter.Config, f *filter.Config) {}},
		{"balance-collapse-last.txt", func(c *reporter.Config, f *filter.Config) { c.CollapseLast = true }},
		{"balance-collapse.txt", func(c *reporter.Config, f *filter.Config) { c.Collapse = true }},
		{"balance-single-element.txt", func(c *reporter.Config, f *filter.Config) { c.SingleElement = "protein" }},
		{"balance-begin-date.txt", func(c *reporter.Config, f *filter.Config) { f.BeginningTime = &begin }},
	}
	for _, c := range cases {
		want, ok := hAssets[c.golden]
		if !ok {
			continue
		}
		sink := newVerifSink(-1)
		rc := reporter.NewDefaultConfig()
		rc.Output = sink
		rc.Color = false
		var fc filter.Config
		c.set(&rc, &fc)
		err := Balance(strings.NewReader(log), strings.NewReader(db), BalanceConfig{DateFormat: "2006/01/02", ParserConfig: parser.NewDefaultConfig(), ResolverConfig: resolver.NewDefaultConfig(), ReporterConfig: rc, FilterConfig: fc})
		verifAssert("golden-command-ok", err == nil)
		verifAssert("golden-output-identical", sink.String() == want)
		verifCover("golden-balance")
	}
	if want, ok := hAssets["report-total.txt"]; ok {
		sink := newVerifSink(-1)
		rc := reporter.NewDefaultConfig()
		rc.Output = sink
		err := report.ReportTotals(strings.NewReader(log), strings.NewReader(db), report.ReportTotalsConfig{DateFormat: "2006/01/02", ParserConfig: parser.NewDefaultConfig(), ResolverConfig: resolver.NewDefaultConfig(), ReporterConfig: rc})
		verifAssert("golden-command-ok", err == nil)
		verifAssert("golden-output-identical", sink.String() == want)
		verifCover("golden-totals")
	}
}
