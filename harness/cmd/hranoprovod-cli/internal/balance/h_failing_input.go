package balance

import (
	"errors"
	"io"
	"strings"
	"time"

	"github.com/aquilax/hranoprovod-cli/cmd/hranoprovod-cli/v3/internal/csv"
	"github.com/aquilax/hranoprovod-cli/cmd/hranoprovod-cli/v3/internal/lint"
	"github.com/aquilax/hranoprovod-cli/cmd/hranoprovod-cli/v3/internal/print"
	"github.com/aquilax/hranoprovod-cli/cmd/hranoprovod-cli/v3/internal/register"
	"github.com/aquilax/hranoprovod-cli/cmd/hranoprovod-cli/v3/internal/report"
	"github.com/aquilax/hranoprovod-cli/cmd/hranoprovod-cli/v3/internal/reporter"
	"github.com/aquilax/hranoprovod-cli/cmd/hranoprovod-cli/v3/internal/summary"
	"github.com/aquilax/hranoprovod-cli/v3/filter"
	"github.com/aquilax/hranoprovod-cli/v3/parser"
	"github.com/aquilax/hranoprovod-cli/v3/resolver"
)

var hErrInput = errors.New("verif: read failure")

// hFailingReader delivers data[:failAt] and then fails (failAt >= len(data): a healthy reader).
type hFailingReader struct {
	data   string
	pos    int
	failAt int
}

func (r *hFailingReader) Read(p []byte) (int, error) {
	limit := len(r.data)
	if r.failAt < limit {
		limit = r.failAt
	}
	if r.pos >= limit {
		if r.failAt < len(r.data) {
			return 0, hErrInput
		}
		return 0, io.EOF
	}
	n := limit - r.pos
	if n > len(p) {
		n = len(p)
	}
	copy(p, r.data[r.pos:r.pos+n])
	r.pos += n
	return n, nil
}

var hInputCommands = []string{"register", "register-single-element", "balance", "csv-log", "print", "summary", "summary-earlier-day",
	"report-unresolved", "report-quantity", "report-totals", "lint", "lint-silent", "register-with-end", "print-with-end", "csv-database", "csv-database-resolved", "report-element-total"}

// a log that is not in date order: a day inside the periods used below is written after later days
const hInLog = "2021/01/02:\n  food/a: 2\n2021/01/05:\n  x: 1\n2021/01/03:\n  food/b: 1.5\n2021/01/01:\n  unknown: 3\n"

// Harness_failing_input: every command function reading the log (or the book) from a reader that
// fails at byte offset failAt (a solver variable over every offset) - also with a period in
// force, also `summary` of a day that is followed by later days: a read that fails is an error.
func Harness_failing_input() {
	ci := verifBound("command", -1)
	if ci < 0 {
		ci = verifChoose("command", len(hInputCommands))
	}
	cmd := hInputCommands[ci]
	verifLabel("site", cmd)
	onBook := cmd == "csv-database" || cmd == "csv-database-resolved" || cmd == "report-element-total" || verifChoose("fault-in", 2) == 1
	text := hInLog
	if onBook {
		text = hDB
		verifLabel("fault-in", "book")
	} else {
		verifLabel("fault-in", "log")
	}
	failAt := int(verifInt("failAt", 0, int64(len(text))))
	var logS, dbS io.Reader = strings.NewReader(hInLog), strings.NewReader(hDB)
	if onBook {
		dbS = &hFailingReader{data: hDB, failAt: failAt}
	} else {
		logS = &hFailingReader{data: hInLog, failAt: failAt}
	}
	sink := newVerifSink(-1)
	rc := reporter.NewDefaultConfig()
	rc.Output = sink
	pc, rs := parser.NewDefaultConfig(), resolver.NewDefaultConfig()
	df := "2006/01/02"
	day := func(d int) *time.Time { t := time.Date(2021, 1, d, 0, 0, 0, 0, time.UTC); return &t }
	endOf := func(d int) *time.Time { t := time.Date(2021, 1, d, 24, 0, 0, -1, time.UTC); return &t }
	var fc filter.Config
	var err error
	usesBook := true
	switch cmd {
	case "register", "register-single-element", "register-with-end":
		if cmd == "register-single-element" {
			rc.SingleElement = "x"
		}
		if cmd == "register-with-end" {
			fc.EndTime = day(3)
		}
		err = register.Register(logS, dbS, register.RegisterConfig{DateFormat: df, ParserConfig: pc, ResolverConfig: rs, ReporterConfig: rc, FilterConfig: fc})
	case "balance":
		err = Balance(logS, dbS, BalanceConfig{DateFormat: df, ParserConfig: pc, ResolverConfig: rs, ReporterConfig: rc})
	case "csv-log":
		usesBook = false
		err = csv.CSVLog(logS, csv.CSVLogConfig{DateFormat: df, ParserConfig: pc, ReporterConfig: csv.NewCSVConfig(reporter.NewCommonConfig(sink, false))})
	case "print", "print-with-end":
		usesBook = false
		if cmd == "print-with-end" {
			fc.EndTime = day(3)
		}
		err = print.Print(logS, print.PrintConfig{DateFormat: df, ParserConfig: pc, ReporterConfig: rc, FilterConfig: fc})
	case "summary", "summary-earlier-day":
		d := 5
		if cmd == "summary-earlier-day" {
			d = 2 // later days follow it in the file
		}
		fc.BeginningTime, fc.EndTime = day(d), endOf(d)
		err = summary.Summary(logS, dbS, summary.SummaryConfig{DateFormat: df, ParserConfig: pc, ResolverConfig: rs, ReporterConfig: rc, FilterConfig: fc})
	case "report-unresolved":
		err = report.ReportUnresolved(logS, dbS, report.ReportUnresolvedConfig{DateFormat: df, ParserConfig: pc, ResolverConfig: rs, ReporterConfig: rc})
	case "report-quantity":
		usesBook = false
		err = report.ReportQuantity(logS, report.ReportQuantityConfig{DateFormat: df, ParserConfig: pc, ReporterConfig: rc})
	case "report-totals":
		err = report.ReportTotals(logS, dbS, report.ReportTotalsConfig{DateFormat: df, ParserConfig: pc, ResolverConfig: rs, ReporterConfig: rc})
	case "lint", "lint-silent":
		usesBook = false
		err = lint.Lint(logS, lint.LintConfig{Silent: cmd == "lint-silent", ParserConfig: pc, ReporterConfig: rc})
	case "csv-database":
		err = csv.CSVDatabase(dbS, csv.CSVDatabaseConfig{ParserConfig: pc, ReporterConfig: rc})
	case "csv-database-resolved":
		err = csv.CSVDatabaseResolved(dbS, csv.CSVDatabaseResolvedConfig{ParserConfig: pc, ReporterConfig: rc, ResolverConfig: rs})
	case "report-element-total":
		err = report.ReportElement(dbS, report.ReportElementConfig{ElementName: "x", ParserConfig: pc, ResolverConfig: rs, ReporterConfig: rc})
	}
	if onBook && !usesBook {
		return
	}
	verifCover("ran")
	if failAt < len(text) {
		verifCover("truncated")
		verifAssert("read-failure-is-error", err != nil)
	} else {
		verifCover("complete")
		verifAssert("complete-read-succeeds", err == nil)
	}
}
