package balance

import "time"

func hNow() time.Time { return time.Unix(1609459200+86400*10, 0).UTC() }
