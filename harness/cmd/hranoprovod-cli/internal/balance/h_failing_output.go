package balance

import (
	"strings"

	"github.com/aquilax/hranoprovod-cli/cmd/hranoprovod-cli/v3/internal/csv"
	"github.com/aquilax/hranoprovod-cli/cmd/hranoprovod-cli/v3/internal/lint"
	"github.com/aquilax/hranoprovod-cli/cmd/hranoprovod-cli/v3/internal/print"
	"github.com/aquilax/hranoprovod-cli/cmd/hranoprovod-cli/v3/internal/register"
	"github.com/aquilax/hranoprovod-cli/cmd/hranoprovod-cli/v3/internal/report"
	"github.com/aquilax/hranoprovod-cli/cmd/hranoprovod-cli/v3/internal/reporter"
	"github.com/aquilax/hranoprovod-cli/cmd/hranoprovod-cli/v3/internal/stats"
	"github.com/aquilax/hranoprovod-cli/cmd/hranoprovod-cli/v3/internal/summary"
	"github.com/aquilax/hranoprovod-cli/v3/parser"
	"github.com/aquilax/hranoprovod-cli/v3/resolver"
)

var hCommands = []string{"register", "register-old", "register-single-element", "register-group-by-food", "register-single-food",
	"balance", "balance-collapse", "balance-single-element", "csv-log", "csv-database", "csv-database-resolved", "print", "summary",
	"report-element-total", "report-unresolved", "report-quantity", "report-totals", "lint", "stats"}

const hLog = "2021/01/01:\n  food/a: 2\n  x: 1\n  unknown: 3\n2021/01/02:\n  food/b: 1.5\n"
const hDB = "food/a:\n  x: 2\n  y: 1\nfood/b:\n  food/a: 2\n"

// Harness_failing_output: every report command writing to a sink that fails from its j-th
// write on (j = 0, 1, 2 or never). If any write failed, the command must return an error.
func Harness_failing_output() {
	ci := verifBound("command", -1)
	if ci < 0 {
		ci = verifChoose("command", len(hCommands))
	}
	cmd := hCommands[ci]
	verifLabel("site", cmd)
	failAt := verifChoose("fail-at", 4) - 1
	sink := newVerifSink(failAt)
	rc := reporter.NewDefaultConfig()
	rc.Output = sink
	pc, rs := parser.NewDefaultConfig(), resolver.NewDefaultConfig()
	df := "2006/01/02"
	logS, dbS := strings.NewReader(hLog), strings.NewReader(hDB)
	var err error
	switch cmd {
	case "register", "register-old", "register-single-element", "register-group-by-food", "register-single-food":
		switch cmd {
		case "register-old":
			rc.UseOldRegReporter = true
		case "register-single-element":
			rc.SingleElement = "x"
		case "register-group-by-food":
			rc.SingleElement = "x"
			rc.ElementGroupByFood = true
		case "register-single-food":
			rc.SingleFood = "food"
		}
		err = register.Register(logS, dbS, register.RegisterConfig{DateFormat: df, ParserConfig: pc, ResolverConfig: rs, ReporterConfig: rc})
	case "balance", "balance-collapse", "balance-single-element":
		if cmd == "balance-collapse" {
			rc.Collapse = true
		}
		if cmd == "balance-single-element" {
			rc.SingleElement = "x"
		}
		err = Balance(logS, dbS, BalanceConfig{DateFormat: df, ParserConfig: pc, ResolverConfig: rs, ReporterConfig: rc})
	case "csv-log":
		err = csv.CSVLog(logS, csv.CSVLogConfig{DateFormat: df, ParserConfig: pc, ReporterConfig: csv.NewCSVConfig(reporter.NewCommonConfig(sink, false))})
	case "csv-database":
		err = csv.CSVDatabase(dbS, csv.CSVDatabaseConfig{ParserConfig: pc, ReporterConfig: rc})
	case "csv-database-resolved":
		err = csv.CSVDatabaseResolved(dbS, csv.CSVDatabaseResolvedConfig{ParserConfig: pc, ReporterConfig: rc, ResolverConfig: rs})
	case "print":
		err = print.Print(logS, print.PrintConfig{DateFormat: df, ParserConfig: pc, ReporterConfig: rc})
	case "summary":
		err = summary.Summary(logS, dbS, summary.SummaryConfig{DateFormat: df, ParserConfig: pc, ResolverConfig: rs, ReporterConfig: rc})
	case "report-element-total":
		err = report.ReportElement(dbS, report.ReportElementConfig{ElementName: "x", ParserConfig: pc, ResolverConfig: rs, ReporterConfig: rc})
	case "report-unresolved":
		err = report.ReportUnresolved(logS, dbS, report.ReportUnresolvedConfig{DateFormat: df, ParserConfig: pc, ResolverConfig: rs, ReporterConfig: rc})
	case "report-quantity":
		err = report.ReportQuantity(logS, report.ReportQuantityConfig{DateFormat: df, ParserConfig: pc, ReporterConfig: rc})
	case "report-totals":
		err = report.ReportTotals(logS, dbS, report.ReportTotalsConfig{DateFormat: df, ParserConfig: pc, ResolverConfig: rs, ReporterConfig: rc})
	case "lint":
		err = lint.Lint(strings.NewReader(hLog+"  broken\n"), lint.LintConfig{ParserConfig: pc, ReporterConfig: rc})
	case "stats":
		err = stats.Stats(verifFile("log", hLog), verifFile("db", hDB), stats.StatsConfig{Now: hNow(), ParserConfig: pc, ReporterConfig: rc})
	}
	verifCover("ran")
	if sink.failed {
		verifLabel("output", "write-failed")
		verifAssert("lost-output-is-error", err != nil)
	} else {
		verifLabel("output", "complete")
		verifAssert("complete-output-succeeds", err == nil)
		verifAssert("something-written", sink.writes > 0)
	}
}
