package balance

import (
	"github.com/aquilax/hranoprovod-cli/cmd/hranoprovod-cli/v3/internal/csv"
	"github.com/aquilax/hranoprovod-cli/cmd/hranoprovod-cli/v3/internal/register"
	"github.com/aquilax/hranoprovod-cli/cmd/hranoprovod-cli/v3/internal/report"
	"github.com/aquilax/hranoprovod-cli/cmd/hranoprovod-cli/v3/internal/reporter"
	shared "github.com/aquilax/hranoprovod-cli/v3"
)

func hRunReporter(r reporter.Reporter, days []*shared.LogNode) {
	for _, d := range days {
		verifAssert("process-ok", r.Process(d) == nil)
	}
	verifAssert("flush-ok", r.Flush() == nil)
}

func hIsFood(w string) bool {
	for _, n := range shared.HFoodUniverse {
		if w == n {
			return true
		}
	}
	return w == shared.HY
}

func hFoodWords(s string) []string {
	res := []string{}
	for _, w := range verifWords(s) {
		if hIsFood(w) {
			res = append(res, w)
		}
	}
	return res
}

// Harness_reports_agree: the same log (<= D days x <= E entries) and resolved book fed to the
// program's independent reporters; figures derived from the same data must agree. No
// reference model sits in between: each relation compares two code paths of the program.
func Harness_reports_agree() {
	D := verifBound("D", 2)
	E := verifBound("E", 2)
	db, book := shared.HGenBook()
	var days []*shared.LogNode
	nd := 1 + verifChoose("days", D)
	for i := 0; i < nd; i++ {
		raw := shared.HGenRawDay(E)
		ln, _ := shared.NewLogNodeFromElements(shared.HTime(i), raw, nil)
		days = append(days, ln)
	}
	X := shared.HX
	base := reporter.NewDefaultConfig()
	base.Color = false
	mk := func() (reporter.Config, *verifSink) {
		c := base
		s := newVerifSink(-1)
		c.Output = s
		return c, s
	}

	// (1) period totals
	c1, s1 := mk()
	hRunReporter(report.NewTotalReporter(c1, db), days)
	totalSum := map[string]float64{}
	totalSeen := map[string]bool{}
	for _, line := range verifLines(s1.String()) {
		nums := verifNums(line)
		names := hFoodWords(line)
		if len(nums) == 3 && len(names) == 1 {
			totalSum[names[0]] = nums[2]
			totalSeen[names[0]] = true
			verifAssert("totals-row-sum=pos+neg", verifFloatEq(nums[2], nums[0]+nums[1]))
		}
	}
	verifCover("totals-read")

	// (2) sum of the register's daily totals
	daySum := map[string]float64{}
	daySeen := map[string]bool{}
	cfgT := base
	cfgT.Totals = true
	for _, d := range days {
		item := reporter.GetReportItem(d, db, cfgT)
		if item.Totals != nil {
			for _, t := range *item.Totals {
				if daySeen[t.Name] {
					daySum[t.Name] += t.Sum
				} else {
					daySum[t.Name], daySeen[t.Name] = t.Sum, true
				}
			}
		}
	}
	for _, n := range []string{shared.HX, shared.HY, shared.HU} {
		verifAssert("period-total-listed-iff-daily", totalSeen[n] == daySeen[n])
		if totalSeen[n] && daySeen[n] {
			verifAssert("period-total=sum-of-daily-totals", verifFloatEq(totalSum[n], daySum[n]))
		}
	}

	// (3) single-element register rows (reg -s X)
	c3, s3 := mk()
	c3.SingleElement = X
	hRunReporter(register.NewRegReporter(c3, db), days)
	rowSum, rowSeen := 0.0, false
	for _, line := range verifLines(s3.String()) {
		nums := verifNums(line)
		if len(nums) == 3 {
			rowSum, rowSeen = rowSum+nums[2], true
		}
	}
	verifAssert("single-element-rows-iff-total", rowSeen == totalSeen[X])
	if rowSeen && totalSeen[X] {
		verifAssert("period-total=sum-of-single-element-rows", verifFloatEq(totalSum[X], rowSum))
	}

	// (4) single-element balance grand total (bal -s X)
	c4, s4 := mk()
	c4.SingleElement = X
	hRunReporter(getReporter(c4, db), days)
	rows4, ok4 := hParseRows(s4.String())
	verifAssert("balance-rows-well-formed", ok4)
	if ok4 && len(rows4) >= 1 {
		grand := rows4[len(rows4)-1]
		verifAssert("balance-grand-total-labelled", grand.label == X)
		top := 0.0
		for _, r := range rows4[:len(rows4)-1] {
			if r.depth == 0 {
				top += r.amt
			}
		}
		verifAssert("balance-grand-total=sum-of-top-rows", verifFloatEq(grand.amt, top))
		want := 0.0
		if totalSeen[X] {
			want = totalSum[X]
		}
		// which foods contribute X: recipes only, or X logged directly as well
		direct := false
		for _, d := range days {
			for _, e := range d.Elements {
				if e.Name == X {
					direct = true
				}
			}
		}
		if direct {
			verifLabel("element-logged-directly", "yes")
		} else {
			verifLabel("element-logged-directly", "no")
		}
		verifAssert("balance-grand-total=period-total", verifFloatEq(grand.amt, want))
	}

	// (5) element grouped by food (reg -s X -g): rows add up to the period total
	c5, s5 := mk()
	c5.SingleElement = X
	c5.ElementGroupByFood = true
	hRunReporter(register.NewRegReporter(c5, db), days)
	gsum := 0.0
	for _, v := range verifNums(s5.String()) {
		gsum += v
	}
	want5 := 0.0
	if totalSeen[X] {
		want5 = totalSum[X]
	}
	verifAssert("group-by-food-rows=period-total", verifFloatEq(gsum, want5))

	// (6) quantities per food = balance leaf amounts = sums of CSV log rows
	c6, s6 := mk()
	hRunReporter(report.NewQuantityReporter(c6, false), days)
	qty := map[string]float64{}
	qtySeen := map[string]bool{}
	for _, line := range verifLines(s6.String()) {
		nums, names := verifNums(line), hFoodWords(line)
		if len(nums) == 1 && len(names) == 1 {
			qty[names[0]], qtySeen[names[0]] = nums[0], true
		}
	}
	c7, s7 := mk()
	hRunReporter(getReporter(c7, db), days)
	rows7, ok7 := hParseRows(s7.String())
	verifAssert("balance-rows-well-formed", ok7)
	leaves7, _ := hLeaves(rows7)
	for _, l := range leaves7 {
		verifAssert("balance-leaf-is-logged-food", qtySeen[l.path])
		if qtySeen[l.path] {
			verifAssert("quantity=balance-leaf", verifFloatEq(qty[l.path], l.amt))
		}
	}
	c8 := csv.NewCSVConfig(reporter.NewCommonConfig(nil, false))
	s8 := newVerifSink(-1)
	c8.Output = s8
	hRunReporter(csv.NewCSVReporter(c8), days)
	csvSum := map[string]float64{}
	csvSeen := map[string]bool{}
	for _, rec := range verifCSV(s8.String()) {
		if len(rec) == 3 {
			v := verifNums(rec[2])
			if len(v) == 1 {
				if csvSeen[rec[1]] {
					csvSum[rec[1]] += v[0]
				} else {
					csvSum[rec[1]], csvSeen[rec[1]] = v[0], true
				}
			}
		}
	}
	for _, n := range shared.HFoodUniverse {
		verifAssert("quantity-listed-iff-csv-rows", qtySeen[n] == csvSeen[n])
		if qtySeen[n] && csvSeen[n] {
			verifAssert("quantity=sum-of-csv-rows", verifFloatEq(qty[n], csvSum[n]))
		}
	}

	// (7) unresolved list = logged foods the book does not define
	c9, s9 := mk()
	hRunReporter(report.NewUnsolvedReporter(c9, db), days)
	unres := verifLines(s9.String())
	for _, n := range shared.HFoodUniverse {
		logged := qtySeen[n]
		listed := 0
		for _, u := range unres {
			if u == n {
				listed++
			}
		}
		if logged && !book.Has(n) {
			verifAssert("unresolved-lists-undefined-food-once", listed == 1)
		} else {
			verifAssert("unresolved-omits-defined-or-unlogged", listed == 0)
		}
	}
}
