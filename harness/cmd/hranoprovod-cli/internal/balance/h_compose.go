package balance

import (
	"time"

	"github.com/aquilax/hranoprovod-cli/cmd/hranoprovod-cli/v3/internal/csv"
	"github.com/aquilax/hranoprovod-cli/cmd/hranoprovod-cli/v3/internal/print"
	"github.com/aquilax/hranoprovod-cli/cmd/hranoprovod-cli/v3/internal/register"
	"github.com/aquilax/hranoprovod-cli/cmd/hranoprovod-cli/v3/internal/report"
	"github.com/aquilax/hranoprovod-cli/cmd/hranoprovod-cli/v3/internal/reporter"
	"github.com/aquilax/hranoprovod-cli/cmd/hranoprovod-cli/v3/internal/summary"
	shared "github.com/aquilax/hranoprovod-cli/v3"
)

var hPerDayUnits = []string{"register", "register-old", "register-single-element", "register-single-food", "csv-log", "print", "summary"}
var hPeriodUnits = []string{"balance", "report-totals", "report-quantity"}

func hMkReporter(unit string, db shared.DBNodeMap) (reporter.Reporter, *verifSink) {
	c := reporter.NewDefaultConfig()
	c.Color = false
	s := newVerifSink(-1)
	c.Output = s
	switch unit {
	case "register":
		return register.NewRegReporter(c, db), s
	case "register-old":
		c.UseOldRegReporter = true
		return register.NewRegReporter(c, db), s
	case "register-single-element":
		c.SingleElement = shared.HX
		return register.NewRegReporter(c, db), s
	case "register-single-food":
		c.SingleFood = shared.HR0
		return register.NewRegReporter(c, db), s
	case "csv-log":
		cc := csv.NewCSVConfig(reporter.NewCommonConfig(s, false))
		return csv.NewCSVReporter(cc), s
	case "print":
		return print.NewPrintReporter(c), s
	case "summary":
		return summary.NewSummaryReporterTemplate(c, db), s
	case "balance":
		return getReporter(c, db), s
	case "report-totals":
		return report.NewTotalReporter(c, db), s
	case "report-quantity":
		return report.NewQuantityReporter(c, false), s
	}
	panic("unknown unit " + unit)
}

func hOut(unit string, db shared.DBNodeMap, days []*shared.LogNode) string {
	r, s := hMkReporter(unit, db)
	hRunReporter(r, days)
	return s.String()
}

// Harness_compose_per_day: for the per-day reports, the report of the concatenated log equals
// the concatenation of the reports of its parts - appending a day never changes what is shown
// for earlier days, also when the same date occurs twice.
func Harness_compose_per_day() {
	E := verifBound("E", 2)
	unit := hPerDayUnits[verifChoose("unit", len(hPerDayUnits))]
	verifLabel("unit", unit)
	db, _ := shared.HGenBook()
	// symbolic dates: equal, adjacent, same day of month in another month, in any order
	t1, _ := time.Parse("2006/01/02", verifDay("day", "2006/01/02", 400))
	t2, _ := time.Parse("2006/01/02", verifDay("day", "2006/01/02", 400))
	d1, _ := shared.NewLogNodeFromElements(t1, shared.HGenRawDay(E), nil)
	d2, _ := shared.NewLogNodeFromElements(t2, shared.HGenRawDay(E), nil)
	whole := hOut(unit, db, []*shared.LogNode{d1, d2})
	part1 := hOut(unit, db, []*shared.LogNode{d1})
	part2 := hOut(unit, db, []*shared.LogNode{d2})
	verifCover("composed")
	verifAssert("report(log1++log2)=report(log1)++report(log2)", whole == part1+part2)
}

func hRowMap(unit, out string) (map[string][]float64, []string) {
	m := map[string][]float64{}
	var order []string
	if unit == "balance" {
		rows, _ := hParseRows(out)
		_, all := hLeaves(rows)
		for _, r := range all {
			m[r.path] = []float64{r.amt}
			order = append(order, r.path)
		}
		return m, order
	}
	for _, line := range verifLines(out) {
		nums, names := verifNums(line), hFoodWords(line)
		if len(names) == 1 && len(nums) >= 1 {
			m[names[0]] = nums
			order = append(order, names[0])
		}
	}
	return m, order
}

// Harness_compose_period: period reports of the concatenated log equal the element-wise sum of
// the reports of its parts.
func Harness_compose_period() {
	E := verifBound("E", 2)
	unit := hPeriodUnits[verifChoose("unit", len(hPeriodUnits))]
	verifLabel("unit", unit)
	db, _ := shared.HGenBook()
	d1, _ := shared.NewLogNodeFromElements(shared.HTime(0), shared.HGenRawDay(E), nil)
	d2, _ := shared.NewLogNodeFromElements(shared.HTime(1), shared.HGenRawDay(E), nil)
	whole, _ := hRowMap(unit, hOut(unit, db, []*shared.LogNode{d1, d2}))
	p1, _ := hRowMap(unit, hOut(unit, db, []*shared.LogNode{d1}))
	p2, _ := hRowMap(unit, hOut(unit, db, []*shared.LogNode{d2}))
	verifCover("composed")
	keys := map[string]bool{}
	for k := range p1 {
		keys[k] = true
	}
	for k := range p2 {
		keys[k] = true
	}
	verifAssert("period-rows=union-of-parts", len(whole) == len(keys))
	for k := range keys {
		w, ok := whole[k]
		verifAssert("period-row-present", ok)
		if !ok {
			continue
		}
		a, b := p1[k], p2[k]
		for i := range w {
			x, y := 0.0, 0.0
			if i < len(a) {
				x = a[i]
			}
			if i < len(b) {
				y = b[i]
			}
			verifAssert("period-amount=sum-of-parts", verifFloatEq(w[i], x+y))
		}
	}
}
