package balance

import (
	"strings"

	"github.com/aquilax/hranoprovod-cli/cmd/hranoprovod-cli/v3/internal/csv"
	"github.com/aquilax/hranoprovod-cli/cmd/hranoprovod-cli/v3/internal/print"
	"github.com/aquilax/hranoprovod-cli/cmd/hranoprovod-cli/v3/internal/register"
	"github.com/aquilax/hranoprovod-cli/cmd/hranoprovod-cli/v3/internal/reporter"
	"github.com/aquilax/hranoprovod-cli/v3/parser"
	"github.com/aquilax/hranoprovod-cli/v3/resolver"
)

// Harness_compose_stream: the per-day commands run on log1 ++ log2 (text, through the real
// parser) print what they print for log1 followed by what they print for log2. Day blocks have
// symbolic dates (same date twice, same day of month in different months, any order) and may be
// empty.
func Harness_compose_stream() {
	layout := "2006/01/02"
	block := func() string {
		s := verifDay("day", layout, 400) + ":\n"
		switch verifChoose("entries", 3) {
		case 1:
			s += "  food/a: 2\n"
		case 2:
			s += "  food/a: 2\n  x: 1\n"
		}
		return s
	}
	log1, log2 := block(), block()
	book := "food/a:\n  x: 2\n"
	cmdName := []string{"register", "print", "csv-log", "register-single-element"}[verifChoose("command", 4)]
	verifLabel("unit", cmdName)
	run := func(logSrc string) (string, error) {
		sink := newVerifSink(-1)
		rc := reporter.NewDefaultConfig()
		rc.Output = sink
		rc.Color = false
		pc, rs := parser.NewDefaultConfig(), resolver.NewDefaultConfig()
		var err error
		switch cmdName {
		case "register":
			err = register.Register(strings.NewReader(logSrc), strings.NewReader(book), register.RegisterConfig{DateFormat: layout, ParserConfig: pc, ResolverConfig: rs, ReporterConfig: rc})
		case "register-single-element":
			rc.SingleElement = "x"
			err = register.Register(strings.NewReader(logSrc), strings.NewReader(book), register.RegisterConfig{DateFormat: layout, ParserConfig: pc, ResolverConfig: rs, ReporterConfig: rc})
		case "print":
			err = print.Print(strings.NewReader(logSrc), print.PrintConfig{DateFormat: layout, ParserConfig: pc, ReporterConfig: rc})
		case "csv-log":
			err = csv.CSVLog(strings.NewReader(logSrc), csv.CSVLogConfig{DateFormat: layout, ParserConfig: pc, ReporterConfig: csv.NewCSVConfig(reporter.NewCommonConfig(sink, false))})
		}
		return sink.String(), err
	}
	whole, e0 := run(log1 + log2)
	p1, e1 := run(log1)
	p2, e2 := run(log2)
	verifCover("composed")
	verifAssert("commands-ok", e0 == nil && e1 == nil && e2 == nil)
	verifAssert("report(log1++log2)=report(log1)++report(log2)", whole == p1+p2)
}
