package balance

import (
	"strings"

	"github.com/aquilax/hranoprovod-cli/cmd/hranoprovod-cli/v3/internal/reporter"
	shared "github.com/aquilax/hranoprovod-cli/v3"
)

// catalogue of category paths over the alphabet {a, b}, depth <= 3 (14 paths)
var hCatalogue = []string{
	"a", "b",
	"a/a", "a/b", "b/a", "b/b",
	"a/a/a", "a/a/b", "a/b/a", "a/b/b", "b/a/a", "b/a/b", "b/b/a", "b/b/b",
}

type hRow struct {
	depth int
	label string
	amt   float64
}

// hParseRows reads "<amount> | <indent><label>" lines.
func hParseRows(out string) (rows []hRow, ok bool) {
	ok = true
	for _, line := range verifLines(out) {
		nums := verifNums(line)
		rest := verifAfterNum(line)
		if len(nums) != 1 || !strings.HasPrefix(rest, " | ") {
			if strings.HasPrefix(line, "-----------|") {
				continue
			}
			ok = false
			continue
		}
		rest = rest[3:]
		w := 0
		for strings.HasPrefix(rest, " ") {
			rest = rest[1:]
			w++
		}
		rows = append(rows, hRow{w, rest, nums[0]})
	}
	// depth = nesting of the indentation widths (any positive step per level)
	var widths []int
	for i := range rows {
		w := rows[i].depth
		for len(widths) > 0 && widths[len(widths)-1] >= w {
			widths = widths[:len(widths)-1]
		}
		widths = append(widths, w)
		rows[i].depth = len(widths) - 1
	}
	return
}

type hLeaf struct {
	path string
	amt  float64
}

// hLeaves rebuilds the full path of every row from indentation and returns the leaf rows.
func hLeaves(rows []hRow) (leaves []hLeaf, all []hLeaf) {
	var stack []string
	for i, r := range rows {
		if r.depth > len(stack) {
			return nil, nil
		}
		stack = append(stack[:r.depth], r.label)
		p := strings.Join(stack, "/")
		all = append(all, hLeaf{p, r.amt})
		if i == len(rows)-1 || rows[i+1].depth <= r.depth {
			leaves = append(leaves, hLeaf{p, r.amt})
		}
	}
	return
}

func hIsPrefixPath(p, q string) bool { // p is a proper path-prefix of q
	return len(q) > len(p) && q[:len(p)] == p && q[len(p)] == '/'
}

// Harness_balance_modes: every set of <= F category paths from the catalogue, each food logged
// once or twice, symbolic quantities; all display modes.
func Harness_balance_modes() {
	F := verifBound("F", 2)
	catalogue := hCatalogue
	if verifBound("deep", 0) == 1 {
		// category paths of up to nine segments (single-letter segments keep pre-order = string order)
		catalogue = []string{"a/b/c/d/e/f/g/h/i", "a/b/c/d/e/f/g/h/j", "a/b/c/d/e/f/g/k", "a/b/c/d/x", "a/b/c/d/e/f/g", "b/c/d/e/f/g/h/i/j"}
	}
	C := verifBound("catalogue", len(catalogue))
	if C > len(catalogue) {
		C = len(catalogue)
	}
	// choose a strictly increasing index sequence: a set of distinct foods
	var foods []string
	next := 0
	for len(foods) < F {
		c := verifChoose("food", C-next+1)
		if c == C-next {
			break
		}
		foods = append(foods, catalogue[next+c])
		next += c + 1
	}
	verifAssume(len(foods) >= 1)
	prefixFree := true
	for _, p := range foods {
		for _, q := range foods {
			if hIsPrefixPath(p, q) {
				prefixFree = false
			}
		}
	}
	// log: each food once or twice; second occurrences go to a second day
	type logged struct {
		name string
		q    float64
	}
	var day1, day2 []logged
	for _, f := range foods {
		day1 = append(day1, logged{f, verifFloat("q")})
		if verifChoose("twice", 2) == 1 {
			day2 = append(day2, logged{f, verifFloat("q")})
		}
	}
	mode := verifChoose("mode", 3) // 0 default, 1 collapse-last, 2 collapse
	cfg := reporter.NewDefaultConfig()
	cfg.CollapseLast = mode == 1
	cfg.Collapse = mode == 2
	verifLabel("mode", []string{"default", "collapse-last", "collapse"}[mode])
	if prefixFree {
		verifLabel("prefix-free", "yes")
	} else {
		verifLabel("prefix-free", "no")
	}
	run := func(c reporter.Config) ([]hRow, bool) {
		sink := newVerifSink(-1)
		c.Output = sink
		r := getReporter(c, shared.NewDBNodeMap())
		for di, d := range [][]logged{day1, day2} {
			els := shared.NewElements()
			for _, l := range d {
				els.Add(l.name, l.q)
			}
			if di == 1 && len(d) == 0 {
				continue
			}
			ln, _ := shared.NewLogNodeFromElements(shared.HTime(di), els, nil)
			verifAssert("process-ok", r.Process(ln) == nil)
		}
		verifAssert("flush-ok", r.Flush() == nil)
		return hParseRows(sink.String())
	}
	rows, ok := run(cfg)
	verifCover("printed")
	verifAssert("rows-well-formed", ok)

	// reference: every distinct prefix, pre-order with sorted siblings, amount = sum of the
	// quantities of all logged foods at or below it
	amount := func(prefix string) float64 {
		sum, first := 0.0, true
		add := func(q float64) {
			if first {
				sum, first = q, false
			} else {
				sum += q
			}
		}
		for _, l := range day2 {
			if l.name == prefix || hIsPrefixPath(prefix, l.name) {
				add(l.q)
			}
		}
		for _, l := range day1 {
			if l.name == prefix || hIsPrefixPath(prefix, l.name) {
				add(l.q)
			}
		}
		return sum
	}
	var prefixes []string
	for _, f := range foods {
		segs := strings.Split(f, "/")
		for i := 1; i <= len(segs); i++ {
			p := strings.Join(segs[:i], "/")
			dup := false
			for _, x := range prefixes {
				if x == p {
					dup = true
				}
			}
			if !dup {
				prefixes = append(prefixes, p)
			}
		}
	}
	// pre-order with sorted siblings == lexicographic order of the segment sequences; over the
	// alphabet {a,b} with '/' < 'a' this is plain string order
	for i := 1; i < len(prefixes); i++ {
		for j := i; j > 0 && prefixes[j] < prefixes[j-1]; j-- {
			prefixes[j], prefixes[j-1] = prefixes[j-1], prefixes[j]
		}
	}

	if mode == 0 {
		_, all := hLeaves(rows)
		verifAssert("every-path-once", len(all) == len(prefixes))
		if len(all) == len(prefixes) {
			for i, p := range prefixes {
				verifAssert("path-order-sorted", all[i].path == p)
				verifAssert("path-amount", verifFloatEq(all[i].amt, amount(p)))
			}
			// parent = own entries + children, on the printed rows
			for i, p := range prefixes {
				own, hasOwn := 0.0, false
				for _, l := range day1 {
					if l.name == p {
						own, hasOwn = own+l.q, true
					}
				}
				for _, l := range day2 {
					if l.name == p {
						own, hasOwn = own+l.q, true
					}
				}
				kids, hasKids := 0.0, false
				for j, q := range prefixes {
					if hIsPrefixPath(p, q) && strings.Count(q, "/") == strings.Count(p, "/")+1 {
						kids, hasKids = kids+all[j].amt, true
					}
				}
				_, _ = hasOwn, hasKids
				verifAssert("parent=own+children", verifFloatEq(all[i].amt, own+kids))
			}
		}
		return
	}
	// conservation in the collapse modes, for every path set (also when a logged food is a
	// path-prefix of another): the top-level rows add up to everything that was logged
	{
		top, first := 0.0, true
		for _, r := range rows {
			if r.depth == 0 {
				if first {
					top, first = r.amt, false
				} else {
					top += r.amt
				}
			}
		}
		all, f2 := 0.0, true
		for _, d := range [][]logged{day2, day1} {
			for k := len(d) - 1; k >= 0; k-- {
				if f2 {
					all, f2 = d[k].q, false
				} else {
					all += d[k].q
				}
			}
		}
		verifAssert("collapse-top-level-sums-to-logged", verifFloatEq(top, all))
	}
	// collapse modes: same leaf paths with the same amounts as the default mode, never a
	// branch dropped, whenever no logged food is a path-prefix of another
	if !prefixFree {
		return
	}
	leaves, _ := hLeaves(rows)
	var wantLeaves []string
	for _, p := range prefixes {
		isLeaf := true
		for _, q := range prefixes {
			if hIsPrefixPath(p, q) {
				isLeaf = false
			}
		}
		if isLeaf {
			wantLeaves = append(wantLeaves, p)
		}
	}
	verifAssert("collapse-keeps-every-leaf", len(leaves) == len(wantLeaves))
	if len(leaves) == len(wantLeaves) {
		for i, p := range wantLeaves {
			verifAssert("collapse-leaf-path", leaves[i].path == p)
			verifAssert("collapse-leaf-amount", verifFloatEq(leaves[i].amt, amount(p)))
		}
	}
}
