package balance

import (
	"strings"

	"github.com/aquilax/hranoprovod-cli/cmd/hranoprovod-cli/v3/internal/csv"
	"github.com/aquilax/hranoprovod-cli/cmd/hranoprovod-cli/v3/internal/register"
	"github.com/aquilax/hranoprovod-cli/cmd/hranoprovod-cli/v3/internal/report"
	"github.com/aquilax/hranoprovod-cli/cmd/hranoprovod-cli/v3/internal/reporter"
	shared "github.com/aquilax/hranoprovod-cli/v3"
	"github.com/aquilax/hranoprovod-cli/v3/parser"
	"github.com/aquilax/hranoprovod-cli/v3/resolver"
)

var hPureUnits = []string{"report-unresolved", "report-quantity", "report-quantity-desc", "report-totals", "register-group-by-food",
	"balance", "register", "register-old", "csv-database-resolved", "report-element-total",
	"balance-single-element", "balance-collapse", "balance-single-element-collapse-last"}

func hSameOutput(a, b string) {
	wa, wb := verifWords(a), verifWords(b)
	na, nb := verifNums(a), verifNums(b)
	verifAssert("same-row-count", len(wa) == len(wb) && len(na) == len(nb))
	if len(wa) == len(wb) && len(na) == len(nb) {
		for i := range wa {
			verifAssert("same-row-order", wa[i] == wb[i])
		}
		for i := range na {
			// what the user sees: the amounts as printed (two decimals)
			verifAssert("same-numbers", verifSameShown(na[i], nb[i], 2))
		}
	}
}

// Harness_pure_function: each unit that ranges over a hash map is run twice on the same
// symbolic input; the executor picks the visiting orders of the two runs independently (all
// pairs). Output and error status must coincide. Ties between values are found by the solver.
func Harness_pure_function() {
	unit := verifBound("unit", -1)
	if unit < 0 {
		unit = verifChoose("unit", len(hPureUnits))
	}
	verifLabel("unit", hPureUnits[unit])
	if unit == 8 || unit == 9 {
		// units that read a recipe book from a stream: numbers are symbolic digit tokens
		q := func() string {
			s := verifBytes("num", 1)
			verifAssume(verifByteIn(s[0], "09"))
			return s
		}
		src := "k/b:\n  x: " + q() + "\n  y: " + q() + "\nk/a:\n  x: " + q() + "\n  k/b: " + q() + "\nk/c:\n  y: " + q() + "\n"
		run := func() (string, error) {
			sink := newVerifSink(-1)
			cfg := reporter.NewDefaultConfig()
			cfg.Output = sink
			var err error
			if unit == 8 {
				err = csv.CSVDatabaseResolved(strings.NewReader(src), csv.CSVDatabaseResolvedConfig{ParserConfig: parser.NewDefaultConfig(), ReporterConfig: cfg, ResolverConfig: resolver.NewDefaultConfig()})
			} else {
				err = report.ReportElement(strings.NewReader(src), report.ReportElementConfig{ElementName: "x", ParserConfig: parser.NewDefaultConfig(), ReporterConfig: cfg, ResolverConfig: resolver.NewDefaultConfig()})
			}
			return sink.String(), err
		}
		o1, e1 := run()
		o2, e2 := run()
		verifCover("ran-twice")
		verifAssert("same-error-status", (e1 == nil) == (e2 == nil))
		if unit == 8 {
			r1, r2 := verifCSV(o1), verifCSV(o2)
			verifAssert("same-row-count", len(r1) == len(r2))
			if len(r1) == len(r2) {
				for i := range r1 {
					verifAssert("same-row-order", len(r1[i]) == 3 && len(r2[i]) == 3 && r1[i][0] == r2[i][0] && r1[i][1] == r2[i][1])
				}
			}
		} else {
			hSameOutput(o1, o2)
		}
		return
	}
	E := verifBound("E", 3)
	db, _ := shared.HGenBook()
	raw := shared.HGenRawDay(E)
	ln, _ := shared.NewLogNodeFromElements(shared.HTime(0), raw, nil)
	days := []*shared.LogNode{ln}
	run := func() string {
		c := reporter.NewDefaultConfig()
		c.Color = false
		s := newVerifSink(-1)
		c.Output = s
		var r reporter.Reporter
		switch unit {
		case 0:
			r = report.NewUnsolvedReporter(c, db)
		case 1:
			r = report.NewQuantityReporter(c, false)
		case 2:
			r = report.NewQuantityReporter(c, true)
		case 3:
			r = report.NewTotalReporter(c, db)
		case 4:
			c.SingleElement = shared.HX
			c.ElementGroupByFood = true
			r = register.NewRegReporter(c, db)
		case 5:
			r = getReporter(c, db)
		case 6:
			r = register.NewRegReporter(c, db)
		case 7:
			c.UseOldRegReporter = true
			r = register.NewRegReporter(c, db)
		case 10:
			c.SingleElement = shared.HX
			r = getReporter(c, db)
		case 11:
			c.Collapse = true
			r = getReporter(c, db)
		case 12:
			c.SingleElement = shared.HX
			c.CollapseLast = true
			r = getReporter(c, db)
		}
		hRunReporter(r, days)
		return s.String()
	}
	o1 := run()
	o2 := run()
	verifCover("ran-twice")
	if unit == 6 {
		verifAssert("same-output", o1 == o2)
		return
	}
	hSameOutput(o1, o2)
}
