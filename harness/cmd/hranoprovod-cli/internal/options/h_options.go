package options

import (
	"flag"
	"time"

	"github.com/urfave/cli/v2"
)

// HCtx builds a real cli.Context lineage (global flags, sub-command flags) from argument lists,
// with the flag definitions and defaults of the application (root.go, register.go).
func HCtx(defaultConfig string, globalArgs, subArgs []string) (*cli.Context, error) {
	app := &cli.App{}
	gs := flag.NewFlagSet("hranoprovod-cli", flag.ContinueOnError)
	gs.String("begin", "", "")
	gs.String("end", "", "")
	gs.String("today", "", "")
	gs.String("database", DefaultDbFilename, "")
	gs.String("logfile", DefaultLogFilename, "")
	gs.String("config", defaultConfig, "")
	gs.String("date-format", "2006/01/02", "")
	gs.Int("maxdepth", 10, "")
	gs.Bool("no-color", false, "")
	gs.Bool("no-database", false, "")
	if err := gs.Parse(globalArgs); err != nil {
		return nil, err
	}
	ss := flag.NewFlagSet("register", flag.ContinueOnError)
	ss.String("begin", "", "")
	ss.String("end", "", "")
	ss.String("single-food", "", "")
	ss.String("single-element", "", "")
	ss.Bool("group-food", false, "")
	ss.Bool("csv", false, "")
	ss.Bool("no-color", false, "")
	ss.Bool("no-totals", false, "")
	ss.Bool("totals-only", false, "")
	ss.Bool("shorten", false, "")
	ss.Bool("use-old-reg-reporter", false, "")
	ss.Bool("collapse", false, "")
	ss.Bool("collapse-last", false, "")
	ss.String("internal-template-name", "default", "")
	if err := ss.Parse(subArgs); err != nil {
		return nil, err
	}
	g := cli.NewContext(app, gs, nil)
	return cli.NewContext(app, ss, g), nil
}

// HCtxArgs derives a sub-command context with positional arguments from a context built by HCtx.
func HCtxArgs(parent *cli.Context, args []string) (*cli.Context, error) {
	fs := flag.NewFlagSet("sub", flag.ContinueOnError)
	if err := fs.Parse(args); err != nil {
		return nil, err
	}
	return cli.NewContext(parent.App, fs, parent), nil
}

// Harness_settings_precedence: flag > configuration file > default for recipe-book path, log
// path, date format and resolve depth, for every combination of {flag given} x {config entry
// present / absent / no config file}; an explicitly named configuration file that exists is
// loaded, one that does not exist is an error, a missing default file is not.
func Harness_settings_precedence() {
	// configuration file: 0 absent at the default location, 1 present at the default location,
	// 2 named explicitly and present, 3 named explicitly and missing
	cfgMode := verifChoose("config", 4)
	verifLabel("config-file", []string{"default-absent", "default-present", "explicit-present", "explicit-missing"}[cfgMode])
	var globalArgs []string
	flagSet := map[string]bool{}
	cfgSet := map[string]bool{}
	iniGlobal, iniResolver := "", ""
	flagDepth := 7
	for _, s := range []string{"database", "logfile", "date-format", "maxdepth"} {
		if verifChoose("flag-"+s, 2) == 1 {
			flagSet[s] = true
			v := map[string]string{"database": "flag-db.yaml", "logfile": "flag-log.yaml", "date-format": "02.01.2006", "maxdepth": "7"}[s]
			if s == "maxdepth" && verifChoose("flag-maxdepth-zero", 2) == 1 {
				v = "0"
				flagDepth = 0
			}
			globalArgs = append(globalArgs, "--"+s+"="+v)
		}
		if cfgMode == 1 || cfgMode == 2 {
			if verifChoose("cfg-"+s, 2) == 1 {
				cfgSet[s] = true
				switch s {
				case "database":
					iniGlobal += "DbFileName = cfg-db.yaml\n"
				case "logfile":
					iniGlobal += "LogFileName = cfg-log.yaml\n"
				case "date-format":
					iniGlobal += "DateFormat = 2006-01-02\n"
				case "maxdepth":
					iniResolver += "MaxDepth = 5\n"
				}
			}
		}
	}
	ini := "[Global]\n" + iniGlobal + "[Resolver]\n" + iniResolver
	defaultCfg := verifMissingFile("default-config")
	switch cfgMode {
	case 1:
		defaultCfg = verifFile("default-config", ini)
	case 2:
		globalArgs = append(globalArgs, "--config="+verifFile("explicit-config", ini))
	case 3:
		globalArgs = append(globalArgs, "--config="+verifMissingFile("explicit-config"))
	}
	// --today written in the date format that is in effect (flag > config > default)
	effLayout := "2006/01/02"
	if flagSet["date-format"] {
		effLayout = "02.01.2006"
	} else if cfgSet["date-format"] {
		effLayout = "2006-01-02"
	}
	withToday := verifChoose("today", 2) == 1
	today := ""
	if withToday {
		today = verifDay("today", effLayout, 400)
		globalArgs = append(globalArgs, "--today="+today)
	}
	c, err := HCtx(defaultCfg, globalArgs, nil)
	verifAssume(err == nil)
	o := New()
	lerr := o.Load(c, true)
	verifCover("loaded")
	if cfgMode == 3 {
		verifAssert("explicit-missing-config-is-error", lerr != nil)
		return
	}
	verifAssert("load-ok", lerr == nil)
	if lerr != nil {
		return
	}
	want := func(s, flagV, cfgV, dflt string) string {
		if flagSet[s] {
			return flagV
		}
		if cfgSet[s] {
			return cfgV
		}
		return dflt
	}
	verifAssert("database:flag>config>default", o.GlobalConfig.DbFileName == want("database", "flag-db.yaml", "cfg-db.yaml", DefaultDbFilename))
	verifAssert("logfile:flag>config>default", o.GlobalConfig.LogFileName == want("logfile", "flag-log.yaml", "cfg-log.yaml", DefaultLogFilename))
	verifAssert("date-format:flag>config>default", o.GlobalConfig.DateFormat == want("date-format", "02.01.2006", "2006-01-02", "2006/01/02"))
	wantDepth := 10
	if flagSet["maxdepth"] {
		wantDepth = flagDepth
	} else if cfgSet["maxdepth"] {
		wantDepth = 5
	}
	verifAssert("maxdepth:flag>config>default", o.ResolverConfig.MaxDepth == wantDepth)
	if withToday {
		tt, perr := time.Parse(effLayout, today)
		verifAssert("today:read-with-effective-date-format", perr == nil && o.GlobalConfig.Now.Equal(tt))
	}
	// the layout used for printing dates is the layout used for reading them (C14)
	if !withToday {
		// without --today the current date is the clock's, whatever else was loaded
		verifAssert("today:defaults-to-the-clock", !o.GlobalConfig.Now.IsZero())
	}
	verifAssert("print-layout=parse-layout", o.ReporterConfig.DateFormat == o.GlobalConfig.DateFormat)
}

// Harness_today_and_period: --today is read with the final date format; begin/end given on the
// sub-command override the global ones; keywords resolve against --today.
func Harness_today_and_period() {
	layout := "2006/01/02"
	today := verifDay("today", layout, 400)
	gb := verifDay("gbegin", layout, 400)
	sb := verifDay("sbegin", layout, 400)
	var globalArgs, subArgs []string
	globalArgs = append(globalArgs, "--today="+today)
	globalBegin := verifChoose("global-begin", 2) == 1
	subBegin := verifChoose("sub-begin", 3) // 0 none, 1 date, 2 keyword yesterday
	if globalBegin {
		globalArgs = append(globalArgs, "--begin="+gb)
	}
	switch subBegin {
	case 1:
		subArgs = append(subArgs, "--begin="+sb)
	case 2:
		subArgs = append(subArgs, "--begin=yesterday")
	}
	endKw := verifChoose("end", 3) // 0 none, 1 global "today", 2 sub "last7"
	if endKw == 1 {
		globalArgs = append(globalArgs, "--end=today")
	} else if endKw == 2 {
		subArgs = append(subArgs, "--end=last7")
	}
	c, err := HCtx(verifMissingFile("default-config"), globalArgs, subArgs)
	verifAssume(err == nil)
	o := New()
	lerr := o.Load(c, false)
	verifCover("loaded")
	verifAssert("load-ok", lerr == nil)
	if lerr != nil {
		return
	}
	tToday, _ := GetTimeFromString(o.GlobalConfig.Now, layout, today)
	verifAssert("today-is-now", o.GlobalConfig.Now.Equal(tToday))
	tg, _ := GetTimeFromString(o.GlobalConfig.Now, layout, gb)
	ts, _ := GetTimeFromString(o.GlobalConfig.Now, layout, sb)
	switch {
	case subBegin == 1:
		verifAssert("sub-command-begin-wins", o.FilterConfig.BeginningTime != nil && o.FilterConfig.BeginningTime.Equal(ts))
	case subBegin == 2:
		verifAssert("yesterday-relative-to-today", o.FilterConfig.BeginningTime != nil && o.FilterConfig.BeginningTime.Equal(tToday.AddDate(0, 0, -1)))
	case globalBegin:
		verifAssert("global-begin-used", o.FilterConfig.BeginningTime != nil && o.FilterConfig.BeginningTime.Equal(tg))
	default:
		verifAssert("no-begin", o.FilterConfig.BeginningTime == nil)
	}
	switch endKw {
	case 0:
		verifAssert("no-end", o.FilterConfig.EndTime == nil)
	case 1:
		verifAssert("end-today", o.FilterConfig.EndTime != nil && o.FilterConfig.EndTime.Equal(tToday))
	case 2:
		verifAssert("end-last7", o.FilterConfig.EndTime != nil && o.FilterConfig.EndTime.Equal(tToday.AddDate(0, 0, -7)))
	}
}
