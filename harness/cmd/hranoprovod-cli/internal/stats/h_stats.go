package stats

import (
	"time"

	"github.com/aquilax/hranoprovod-cli/cmd/hranoprovod-cli/v3/internal/reporter"
	"github.com/aquilax/hranoprovod-cli/v3/parser"
)

// Harness_stats_counts: stats counts equal the numbers of headings; first/last record dates
// are those of the first/last heading, read with the configured date format.
func Harness_stats_counts() {
	layout := []string{"2006/01/02", "2006-01-02"}[verifChoose("layout", 2)]
	R := 1 + verifChoose("records", verifBound("R", 3))
	heads := make([]string, R)
	logSrc := ""
	for i := range heads {
		heads[i] = verifDay("day", layout, 300)
		logSrc += heads[i] + ":\n  a: 1\n"
		if i == 0 {
			logSrc += "# comment\n\n"
		}
	}
	K := verifChoose("recipes", 3)
	dbSrc := ""
	for i := 0; i < K; i++ {
		// headings may repeat a name: every heading counts as a record
		dbSrc += "r" + string(rune('0'+verifChoose("recipe-name", 2))) + ":\n  x: 1\n"
	}
	if layout == "2006/01/02" {
		verifLabel("date-format", "default")
	} else {
		verifLabel("date-format", "custom")
	}
	sink := newVerifSink(-1)
	// the configuration a command receives from Options.Load with --date-format=layout
	rc := reporter.NewDefaultConfig()
	rc.Output = sink
	rc.DateFormat = hReporterLayout(layout)
	now, _ := time.Parse(layout, verifDay("today", layout, 300))
	err := Stats(verifFile("log", logSrc), verifFile("db", dbSrc), StatsConfig{Now: now, ParserConfig: parser.NewDefaultConfig(), ReporterConfig: rc})
	verifCover("ran")
	verifAssert("stats-ok", err == nil)
	// each line as words: "Database records: 2", "First record: <date> (<n> days ago)"
	field := func(w0, w1 string) string {
		for _, l := range verifLines(sink.String()) {
			w := verifWords(l)
			if len(w) >= 3 && w[0] == w0 && w[1] == w1 {
				return w[2]
			}
		}
		return "<missing>"
	}
	verifAssert("database-records=headings", field("Database", "records:") == string(rune('0'+K)))
	verifAssert("log-records=headings", field("Log", "records:") == string(rune('0'+R)))
	verifAssert("first-record-is-first-heading", field("First", "record:") == heads[0])
	verifAssert("last-record-is-last-heading", field("Last", "record:") == heads[R-1])
}

// Harness_stats_distances: the "(n days ago)" figures are the whole days between --today and
// the first / last heading (concrete supplement: Time.Sub on symbolic instants is out of the
// solvers' reach, so the dates here are concrete and the executor runs as an interpreter
// through the real Duration.Hours code).
func Harness_stats_distances() {
	layout := "2006/01/02"
	todays := []string{"2021/03/01", "2021/12/31", "2020/03/01", "2021/01/01"}
	today := todays[verifChoose("today", len(todays))]
	dists := []int{0, 1, 2, 28, 29, 59, 365, 366, 1000, -1, -30}
	d1 := dists[verifChoose("first-distance", len(dists))]
	d2 := dists[verifChoose("last-distance", len(dists))]
	now, _ := time.Parse(layout, today)
	first := now.AddDate(0, 0, -d1).Format(layout)
	last := now.AddDate(0, 0, -d2).Format(layout)
	logSrc := first + ":\n  a: 1\n" + last + ":\n  a: 2\n"
	sink := newVerifSink(-1)
	rc := reporter.NewDefaultConfig()
	rc.Output = sink
	rc.DateFormat = hReporterLayout(layout)
	err := Stats(verifFile("log", logSrc), verifFile("db", "r:\n  x: 1\n"), StatsConfig{Now: now, ParserConfig: parser.NewDefaultConfig(), ReporterConfig: rc})
	verifCover("ran")
	verifAssert("stats-ok", err == nil)
	days := func(w0 string) string {
		for _, l := range verifLines(sink.String()) {
			w := verifWords(l)
			if len(w) >= 4 && w[0] == w0 && w[1] == "record:" {
				return w[3]
			}
		}
		return "<missing>"
	}
	itoa := func(n int) string {
		neg := n < 0
		if neg {
			n = -n
		}
		s := ""
		for {
			s = string(rune('0'+n%10)) + s
			n /= 10
			if n == 0 {
				break
			}
		}
		if neg {
			s = "-" + s
		}
		return s
	}
	verifAssert("first-record-days-ago", days("First") == "("+itoa(d1))
	verifAssert("last-record-days-ago", days("Last") == "("+itoa(d2))
}
