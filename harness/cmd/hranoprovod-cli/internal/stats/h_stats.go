package stats

import (
	"time"

	"github.com/aquilax/hranoprovod-cli/cmd/hranoprovod-cli/v3/internal/reporter"
	"github.com/aquilax/hranoprovod-cli/v3/parser"
)

// Harness_stats_counts: stats counts equal the numbers of headings; first/last record dates
// are those of the first/last heading, read with the configured date format.
func Harness_stats_counts() {
	layout := []string{"2006/01/02", "2006-01-02"}[verifChoose("layout", 2)]
	R := 1 + verifChoose("records", verifBound("R", 3))
	heads := make([]string, R)
	logSrc := ""
	for i := range heads {
		heads[i] = verifDay("day", layout, 300)
		logSrc += heads[i] + ":\n  a: 1\n"
		if i == 0 {
			logSrc += "# comment\n\n"
		}
	}
	K := verifChoose("recipes", 3)
	dbSrc := ""
	for i := 0; i < K; i++ {
		// headings may repeat a name: every heading counts as a record
		dbSrc += "r" + string(rune('0'+verifChoose("recipe-name", 2))) + ":\n  x: 1\n"
	}
	if layout == "2006/01/02" {
		verifLabel("date-format", "default")
	} else {
		verifLabel("date-format", "custom")
	}
	sink := newVerifSink(-1)
	// the configuration a command receives from Options.Load with --date-format=layout
	rc := reporter.NewDefaultConfig()
	rc.Output = sink
	rc.DateFormat = hReporterLayout(layout)
	now, _ := time.Parse(layout, verifDay("today", layout, 300))
	err := Stats(verifFile("log", logSrc), verifFile("db", dbSrc), StatsConfig{Now: now, ParserConfig: parser.NewDefaultConfig(), ReporterConfig: rc})
	verifCover("ran")
	verifAssert("stats-ok", err == nil)
	// each line as words: "Database records: 2", "First record: <date> (<n> days ago)"
	field := func(w0, w1 string) string {
		for _, l := range verifLines(sink.String()) {
			w := verifWords(l)
			if len(w) >= 3 && w[0] == w0 && w[1] == w1 {
				return w[2]
			}
		}
		return "<missing>"
	}
	verifAssert("database-records=headings", field("Database", "records:") == string(rune('0'+K)))
	verifAssert("log-records=headings", field("Log", "records:") == string(rune('0'+R)))
	verifAssert("first-record-is-first-heading", field("First", "record:") == heads[0])
	verifAssert("last-record-is-last-heading", field("Last", "record:") == heads[R-1])
}
