package stats

import (
	"github.com/aquilax/hranoprovod-cli/cmd/hranoprovod-cli/v3/internal/reporter"
	"github.com/aquilax/hranoprovod-cli/v3/parser"
)

// Harness_stats_malformed: `stats` on a log or book with a malformed line must fail with an
// error, not crash and not succeed.
func Harness_stats_malformed() {
	k := 1 + verifChoose("k", verifBound("k", 2))
	body := verifBytes("body", k)
	for i := 0; i < k; i++ {
		c := body[i]
		if i == 0 || i == k-1 {
			verifAssume(verifByteIn(c, "azAZ09\x80\xff"))
		} else {
			verifAssume(verifByteIn(c, "!~\x80\xff"))
		}
	}
	good := "2021/01/01:\n  a: 1\n2021/01/02:\n  b: 2\n"
	bad := "2021/01/01:\n  a: 1\n  " + body + "\n2021/01/02:\n  b: 2\n"
	logSrc, dbSrc := good, "r0:\n  x: 1\n"
	if verifChoose("which", 2) == 0 {
		logSrc = bad
		verifLabel("site", "stats.Stats/log")
	} else {
		dbSrc = "r0:\n  x: 1\n  " + body + "\n"
		verifLabel("site", "stats.Stats/database")
	}
	logName := verifFile("log", logSrc)
	dbName := verifFile("db", dbSrc)
	sink := newVerifSink(-1)
	cfg := reporter.NewDefaultConfig()
	cfg.Output = sink
	err := Stats(logName, dbName, StatsConfig{ParserConfig: parser.NewDefaultConfig(), ReporterConfig: cfg})
	verifCover("ran")
	verifAssert("malformed-fails-command", err != nil)
}
