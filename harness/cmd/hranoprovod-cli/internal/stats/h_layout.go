package stats

import (
	"github.com/aquilax/hranoprovod-cli/cmd/hranoprovod-cli/v3/internal/options"
)

// hReporterLayout returns ReporterConfig.DateFormat as Options.Load produces it when the user
// passes --date-format=layout.
func hReporterLayout(layout string) string {
	c, err := options.HCtx("", []string{"--date-format=" + layout}, nil)
	if err != nil {
		return "<flag error>"
	}
	o := options.New()
	if err := o.Load(c, false); err != nil {
		return "<load error>"
	}
	return o.ReporterConfig.DateFormat
}
