package utils

import (
	"errors"
	"io"
	"time"

	"github.com/aquilax/hranoprovod-cli/v3/filter"
	"github.com/aquilax/hranoprovod-cli/v3/parser"
)

var hErrRead = errors.New("verif: read failure")

type hFlaky struct {
	data   string
	pos    int
	failAt int
	chunk  int
}

func (r *hFlaky) Read(p []byte) (int, error) {
	limit := len(r.data)
	if r.failAt < limit {
		limit = r.failAt
	}
	if r.pos >= limit {
		if r.failAt < len(r.data) {
			return 0, hErrRead
		}
		return 0, io.EOF
	}
	n := limit - r.pos
	if n > r.chunk {
		n = r.chunk
	}
	if n > len(p) {
		n = len(p)
	}
	copy(p, r.data[r.pos:r.pos+n])
	r.pos += n
	return n, nil
}

// Harness_walk_flaky: a command walking a log (with or without a period) whose reader fails at
// an arbitrary byte offset must fail; it never reports success on a prefix of the file, also
// when the remaining days lie outside the period.
func Harness_walk_flaky() {
	layout := "2006/01/02"
	src := "2021/01/01:\n  a: 1\n2021/01/02:\n  b: 2\n2021/01/03:\n  c: 3\n2021/01/04:\n  d: 4\n"
	var fc filter.Config
	switch verifChoose("period", 3) {
	case 1:
		e, _ := time.Parse(layout, "2021/01/02")
		fc.EndTime = &e
		verifLabel("period", "end-before-last-days")
	case 2:
		b, _ := time.Parse(layout, "2021/01/03")
		fc.BeginningTime = &b
		verifLabel("period", "begin-after-first-days")
	default:
		verifLabel("period", "none")
	}
	failAt := int(verifInt("failAt", 0, int64(len(src))))
	rd := &hFlaky{data: src, failAt: failAt, chunk: []int{1, 4096}[verifChoose("chunk", 2)]}
	r := &hCountReporter{}
	err := WalkNodesInStream(rd, layout, parser.NewDefaultConfig(), filter.GetIntervalNodeFilter(fc), r)
	if failAt < len(src) {
		verifCover("truncated")
		verifAssert("read-failure-is-error", err != nil)
	} else {
		verifCover("complete")
		verifAssert("complete-read-succeeds", err == nil)
	}
}
