package utils

import (
	"strings"

	"github.com/aquilax/hranoprovod-cli/v3/parser"

	shared "github.com/aquilax/hranoprovod-cli/v3"
)

type hCountReporter struct {
	processed []*shared.LogNode
	flushed   int
}

func (r *hCountReporter) Process(ln *shared.LogNode) error {
	r.processed = append(r.processed, ln)
	return nil
}
func (r *hCountReporter) Flush() error { r.flushed++; return nil }

// hBadFile: a file with `good` well-formed records before a malformed line (no blank before
// the value; symbolic bytes) at a known physical line, followed by more well-formed text.
func hBadFile(headFmt func(i int) string) (src string, badLine int, raw string, goodBefore int) {
	goodBefore = verifChoose("good-before", 3)
	lines := 0
	for i := 0; i < goodBefore; i++ {
		src += headFmt(i) + ":\n  a: 1\n"
		lines += 2
	}
	src += headFmt(goodBefore) + ":\n"
	lines++
	if verifChoose("pad", 2) == 1 {
		src += "# comment\n\n"
		lines += 2
	}
	k := 1 + verifChoose("k", verifBound("k", 2))
	body := verifBytes("body", k)
	for i := 0; i < k; i++ {
		c := body[i]
		if i == 0 || i == k-1 {
			verifAssume(verifByteIn(c, "azAZ09\x80\xff"))
		} else {
			verifAssume(c != '\n')
			verifAssume(c != '\r')
			verifAssume(c != ' ')
			verifAssume(c != '\t')
		}
	}
	raw = "  " + body
	src += raw + "\n"
	lines++
	badLine = lines
	src += "  b: 2\n" + headFmt(goodBefore+1) + ":\n  c: 3\n  alsobad\n"
	return
}

func hIsBadSyntax(err error, line int, raw string) bool {
	e, ok := err.(*parser.ErrorBadSyntax)
	if !ok {
		return false
	}
	return e.LineNumber == line && e.Line == raw
}

// Harness_load_first_error: LoadDatabaseFromStream fails with exactly the first malformed line.
func Harness_load_first_error() {
	src, badLine, raw, _ := hBadFile(func(i int) string { return "r" + string(rune('0'+i)) })
	_, err := LoadDatabaseFromStream(strings.NewReader(src), parser.NewDefaultConfig())
	verifCover("loaded")
	verifAssert("malformed-fails-command", err != nil)
	if err != nil {
		verifAssert("malformed-first-line-quoted", hIsBadSyntax(err, badLine, raw))
	}
}

// Harness_walk_first_error: WalkNodesInStream fails with exactly the first malformed line and
// processes nothing after it.
func Harness_walk_first_error() {
	src, badLine, raw, good := hBadFile(func(i int) string { return verifDay("day", "2006/01/02", 400) })
	r := &hCountReporter{}
	err := WalkNodesInStream(strings.NewReader(src), "2006/01/02", parser.NewDefaultConfig(), nil, r)
	verifCover("walked")
	verifAssert("malformed-fails-command", err != nil)
	if err != nil {
		verifAssert("malformed-first-line-quoted", hIsBadSyntax(err, badLine, raw))
	}
	verifAssert("nothing-processed-after-error", len(r.processed) == good)
}
