package utils

import (
	"strings"
	"time"

	"github.com/aquilax/hranoprovod-cli/v3/filter"
	"github.com/aquilax/hranoprovod-cli/v3/parser"
)

// Harness_walk_period: a log of R days (symbolic dates: any order, repeats allowed) walked
// with a begin/end period processes exactly the days d with begin <= d <= end, in file order:
// the same sequence as walking the log with the other days deleted and no period.
func Harness_walk_period() {
	R := verifBound("R", 3)
	layout := "2006/01/02"
	heads := make([]string, R)
	for i := range heads {
		heads[i] = verifDay("day", layout, 40)
	}
	mk := func(keep []bool) string {
		src := ""
		for i := 0; i < R; i++ {
			if keep == nil || keep[i] {
				src += heads[i] + ":\n  f" + string(rune('0'+i)) + ": 1\n"
			}
		}
		return src
	}
	var fc filter.Config
	hasB, hasE := verifChoose("begin", 2) == 1, verifChoose("end", 2) == 1
	var b, e time.Time
	if hasB {
		b, _ = time.Parse(layout, verifDay("begin", layout, 40))
		fc.BeginningTime = &b
	}
	if hasE {
		e, _ = time.Parse(layout, verifDay("end", layout, 40))
		fc.EndTime = &e
	}
	keep := make([]bool, R)
	for i := range heads {
		t, _ := time.Parse(layout, heads[i])
		in := true
		if hasB && t.Before(b) {
			in = false
		}
		if hasE && t.After(e) {
			in = false
		}
		keep[i] = in
	}
	r1 := &hCountReporter{}
	err1 := WalkNodesInStream(strings.NewReader(mk(nil)), layout, parser.NewDefaultConfig(), filter.GetIntervalNodeFilter(fc), r1)
	r2 := &hCountReporter{}
	err2 := WalkNodesInStream(strings.NewReader(mk(keep)), layout, parser.NewDefaultConfig(), nil, r2)
	verifCover("walked")
	verifAssert("walk-ok", err1 == nil && err2 == nil)
	verifAssert("period-selects-exactly-in-range-days", len(r1.processed) == len(r2.processed))
	if len(r1.processed) == len(r2.processed) {
		for i := range r1.processed {
			a, c := r1.processed[i], r2.processed[i]
			verifAssert("same-day-in-file-order", a.Time.Equal(c.Time) && len(a.Elements) == 1 && len(c.Elements) == 1 && a.Elements[0].Name == c.Elements[0].Name)
		}
	}
}
