package lint

import (
	"strconv"
	"strings"

	"github.com/aquilax/hranoprovod-cli/cmd/hranoprovod-cli/v3/internal/reporter"
	"github.com/aquilax/hranoprovod-cli/v3/parser"
)

// Harness_lint: a file with k >= 0 malformed lines planted among well-formed ones. lint must
// print one message per malformed line, in file order, identical to the parser's error text,
// and "No errors found" exactly when there is none (nothing at all when --silent).
func Harness_lint() {
	L := verifBound("lines", 3)
	silent := verifChoose("silent", 2) == 1
	src := "# header comment\nh:\n"
	lineNo := 2
	var want []string
	var wantRaw []string
	var wantNo []int
	for i := 0; i < L; i++ {
		switch verifChoose("line", 4) {
		case 0:
			src += "  a: 1\n"
			lineNo++
		case 1: // bad syntax, symbolic bytes
			k := 1 + verifChoose("k", 3) // three bytes: the inner one is any printable character ('%', quotes, ...)
			body := verifBytes("body", k)
			for j := 0; j < k; j++ {
				c := body[j]
				if j == 0 || j == k-1 {
					verifAssume(verifByteIn(c, "azAZ09"))
				} else {
					verifAssume(verifByteIn(c, "!~"))
				}
			}
			raw := "\t" + body
			src += raw + "\n"
			lineNo++
			want = append(want, parser.NewErrorBadSyntax(lineNo, raw).Error())
			wantRaw, wantNo = append(wantRaw, raw), append(wantNo, lineNo)
		case 2: // bad number
			raw := "  b: x1"
			src += raw + "\n"
			lineNo++
			want = append(want, parser.NewErrorConversion(nil, "x1", lineNo, raw).Error())
			wantRaw, wantNo = append(wantRaw, raw), append(wantNo, lineNo)
		case 3:
			src += "\n"
			lineNo++
		}
	}
	if len(want) == 0 {
		verifLabel("malformed", "none")
	} else {
		verifLabel("malformed", "some")
	}
	sink := newVerifSink(-1)
	err := Lint(strings.NewReader(src), LintConfig{Silent: silent, ParserConfig: parser.NewDefaultConfig(), ReporterConfig: reporter.Config{Output: sink}})
	verifCover("linted")
	_ = err
	lines := verifLines(sink.String())
	n := len(lines)
	hasOK := n > 0 && lines[n-1] == "No errors found"
	if hasOK {
		n--
	}
	verifAssert("lint-one-message-per-malformed-line", n == len(want))
	if n == len(want) {
		for i := range want {
			verifAssert("lint-message-text-and-order", lines[i] == want[i])
			verifAssert("lint-message-quotes-line", verifContains(lines[i], wantRaw[i]))
			verifAssert("lint-message-has-line-number", verifContains(lines[i], "line "+strconv.Itoa(wantNo[i])))
		}
	}
	if len(want) == 0 && !silent {
		verifAssert("lint-no-errors-found-when-clean", hasOK)
	} else {
		verifAssert("lint-no-errors-found-only-when-clean", !hasOK)
	}
}
