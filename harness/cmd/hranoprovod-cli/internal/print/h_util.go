package print

import "time"

func utilsParse(layout, s string) (time.Time, error) { return time.Parse(layout, s) }
