package print

import (
	"strings"

	"github.com/aquilax/hranoprovod-cli/cmd/hranoprovod-cli/v3/internal/reporter"
	"github.com/aquilax/hranoprovod-cli/cmd/hranoprovod-cli/v3/internal/utils"
	shared "github.com/aquilax/hranoprovod-cli/v3"
	"github.com/aquilax/hranoprovod-cli/v3/parser"
)

type hCollect struct{ days []*shared.LogNode }

func (c *hCollect) Process(ln *shared.LogNode) error { c.days = append(c.days, ln); return nil }
func (c *hCollect) Flush() error                     { return nil }

func hName(tag string, n int) string {
	s := verifBytes(tag, n)
	for i := 0; i < n; i++ {
		if i == 0 || i == n-1 {
			verifAssume(verifByteIn(s[i], "azAZ09\x80\xff"))
		} else {
			verifAssume(s[i] != '\n')
			verifAssume(s[i] != '\r')
		}
	}
	return s
}

func hWord(tag string, n int, colonOK bool) string {
	s := verifBytes(tag, n)
	for i := 0; i < n; i++ {
		if i == 0 || i == n-1 {
			verifAssume(verifByteIn(s[i], "azAZ09"))
		} else {
			verifAssume(s[i] != '\n')
			verifAssume(s[i] != '\r')
			if !colonOK {
				verifAssume(s[i] != ':')
			}
		}
	}
	return s
}

func hPrint(layout string, days []*shared.LogNode) (string, error) {
	sink := newVerifSink(-1)
	cfg := reporter.NewDefaultConfig()
	cfg.Output = sink
	cfg.DateFormat = layout
	r := NewPrintReporter(cfg)
	for _, d := range days {
		if err := r.Process(d); err != nil {
			return "", err
		}
	}
	if err := r.Flush(); err != nil {
		return "", err
	}
	return sink.String(), nil
}

func hRead(layout, src string) ([]*shared.LogNode, error) {
	c := &hCollect{}
	err := utils.WalkNodesInStream(strings.NewReader(src), layout, parser.NewDefaultConfig(), nil, c)
	return c.days, err
}

// Harness_print_roundtrip: a day with symbolic names, quantities and notes is printed; the
// tool reads its own output back (real parser) to the same day, foods, quantities (as
// rendered with two decimals) and notes; printing the re-read log reproduces the text.
func Harness_print_roundtrip() {
	n := verifBound("n", 3)
	layout := []string{"2006/01/02", "2006-01-02", "02.01.2006"}[verifChoose("layout", verifBound("layouts", 3))]
	head := verifDay("day", layout, 300)
	t, err := utilsParse(layout, head)
	verifAssume(err == nil)
	els := shared.NewElements()
	ne := 1 + verifChoose("entries", 2)
	for i := 0; i < ne; i++ {
		els.Add(hName("name", 1+verifChoose("n", n)), verifFloat("q"))
	}
	for i := 1; i < len(els); i++ {
		verifAssume(els[i].Name != els[0].Name)
	}
	var md *shared.Metadata
	switch verifChoose("notes", 3) {
	case 1:
		md = &shared.Metadata{{Name: hWord("key", 2, false), Value: hWord("text", 3, true)}}
	case 2:
		md = &shared.Metadata{{Name: "", Value: hWord("text", 3, false)}, {Name: hWord("key", 1, false), Value: hWord("text", 1, true)}}
	}
	day := shared.NewLogNode(t, els, md)
	out1, err1 := hPrint(layout, []*shared.LogNode{day})
	verifAssert("print-ok", err1 == nil)
	// names are data, never formatting directives
	verifAssert("printed-text-well-formed", !verifGarbled(out1))
	if verifGarbled(out1) {
		verifCover("read-back")
		return
	}
	back, err2 := hRead(layout, out1)
	verifCover("read-back")
	verifAssert("printed-log-reads-back", err2 == nil)
	if err2 != nil {
		return
	}
	verifAssert("same-number-of-days", len(back) == 1)
	if len(back) != 1 {
		return
	}
	b := back[0]
	verifAssert("same-day", b.Time.Equal(day.Time))
	verifAssert("same-food-count", len(b.Elements) == len(day.Elements))
	if len(b.Elements) == len(day.Elements) {
		for i := range day.Elements {
			verifAssert("same-food-name", b.Elements[i].Name == day.Elements[i].Name)
		}
	}
	nb, nd := 0, 0
	if b.Metadata != nil {
		nb = len(*b.Metadata)
	}
	if md != nil {
		nd = len(*md)
	}
	verifAssert("same-note-count", nb == nd)
	if nb == nd {
		for i := 0; i < nd; i++ {
			verifAssert("same-note-key", (*b.Metadata)[i].Name == (*md)[i].Name)
			verifAssert("same-note-text", (*b.Metadata)[i].Value == (*md)[i].Value)
		}
	}
	out2, err3 := hPrint(layout, back)
	verifAssert("reprint-ok", err3 == nil)
	verifAssert("print-is-idempotent", out2 == out1)
}
