package register

import (
	"io"

	"github.com/aquilax/hranoprovod-cli/cmd/hranoprovod-cli/v3/internal/options"
	"github.com/aquilax/hranoprovod-cli/cmd/hranoprovod-cli/v3/internal/utils"
)

// Harness_no_database: with --no-database the register command runs as with an empty recipe
// book, whether or not a book file name is configured.
func Harness_no_database() {
	logName := verifFile("log", "2021/01/01:\n  r0: 1\n")
	dbName := verifFile("db", "r0:\n  x: 2\n")
	args := []string{"--logfile=" + logName}
	noDB := verifChoose("no-database", 2) == 1
	withDB := verifChoose("database-flag", 2) == 1
	if noDB {
		args = append(args, "--no-database")
	}
	if withDB || !noDB {
		args = append(args, "--database="+dbName)
	}
	c, err := options.HCtx(verifMissingFile("default-config"), args, nil)
	verifAssume(err == nil)
	var book string
	called := false
	cmd := NewRegisterCommand(utils.NewCmdUtils(), func(logStream, dbStream io.Reader, rc RegisterConfig) error {
		called = true
		b, rerr := io.ReadAll(dbStream)
		if rerr != nil {
			return rerr
		}
		book = string(b)
		return nil
	})
	aerr := cmd.Action(c)
	verifCover("ran")
	if noDB {
		verifLabel("no-database", "set")
		verifAssert("no-database-command-runs", aerr == nil && called)
		if aerr == nil && called {
			verifAssert("no-database-means-empty-book", book == "")
		}
	} else {
		verifLabel("no-database", "unset")
		verifAssert("database-read", aerr == nil && called && book == "r0:\n  x: 2\n")
	}
}
