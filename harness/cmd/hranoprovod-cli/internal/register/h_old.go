package register

import (
	"github.com/aquilax/hranoprovod-cli/cmd/hranoprovod-cli/v3/internal/reporter"
	shared "github.com/aquilax/hranoprovod-cli/v3"
)

func hIsName(w string) bool {
	for _, n := range []string{shared.HR0, shared.HR1, shared.HX, shared.HY, shared.HU} {
		if w == n {
			return true
		}
	}
	return false
}

func hNames(words []string) []string {
	res := []string{}
	for _, w := range words {
		if hIsName(w) {
			res = append(res, w)
		}
	}
	return res
}

// hExpectDay: the names and numbers a register shows for one day, in order.
func hExpectDay(foods []shared.HFood, book *shared.HBook, showFoods, showTotals bool) (names []string, nums []float64) {
	names, nums = []string{}, []float64{}
	cs := shared.HContributions(foods, book)
	if showFoods {
		k := 0
		for _, f := range foods {
			names = append(names, f.Name)
			nums = append(nums, f.Qty)
			for k < len(cs) && cs[k].Food == f.Name {
				names = append(names, cs[k].Elem)
				nums = append(nums, cs[k].Amt)
				k++
			}
		}
	}
	if showTotals {
		for _, t := range shared.HTotals(cs) {
			names = append(names, t.Name)
			nums = append(nums, t.Pos, t.Neg, t.Pos+t.Neg)
		}
	}
	return
}

func hCheckOutput(out string, names []string, nums []float64) {
	gotNames := hNames(verifWords(out))
	gotNums := verifNums(out)
	verifAssert("shown-names-count", len(gotNames) == len(names))
	if len(gotNames) == len(names) {
		for i := range names {
			verifAssert("shown-names-order", gotNames[i] == names[i])
		}
	}
	verifAssert("shown-numbers-count", len(gotNums) == len(nums))
	if len(gotNums) == len(nums) {
		for i := range nums {
			verifAssert("shown-number", verifFloatEq(gotNums[i], nums[i]))
		}
	}
}

// Harness_old_reg_reporter: the old register reporter prints, per day, each distinct food with
// its quantity, its ingredients, and the signed totals - the same records and numbers as the
// reference model - under every (Totals, TotalsOnly, Color) setting.
func Harness_old_reg_reporter() {
	E := verifBound("E", 2)
	db, book := shared.HGenBook()
	raw := shared.HGenRawDay(E)
	foods := shared.HDistinct(raw)
	ln, _ := shared.NewLogNodeFromElements(shared.HTime(0), raw, nil)
	sink := newVerifSink(-1)
	cfg := reporter.NewDefaultConfig()
	cfg.Output = sink
	cfg.UseOldRegReporter = true
	cfg.Color = verifChoose("color", 2) == 1
	cfg.Totals = verifChoose("totals", 2) == 1
	cfg.TotalsOnly = verifChoose("totals-only", 2) == 1
	r := NewRegReporter(cfg, db)
	verifAssert("process-ok", r.Process(ln) == nil)
	verifAssert("flush-ok", r.Flush() == nil)
	verifCover("printed")
	names, nums := hExpectDay(foods, book, !cfg.TotalsOnly, cfg.Totals)
	hCheckOutput(sink.String(), names, nums)
}
