package register

import (
	"github.com/aquilax/hranoprovod-cli/cmd/hranoprovod-cli/v3/internal/reporter"
	shared "github.com/aquilax/hranoprovod-cli/v3"
)

// Harness_old_cnum: the old reporter's colouring follows the same rule as the template function.
func Harness_old_cnum() {
	num := verifFloat("num")
	mk := func(color bool) *regReporter {
		c := reporter.NewDefaultConfig()
		c.Color = color
		c.Output = newVerifSink(-1)
		return newRegReporter(c, shared.NewDBNodeMap())
	}
	plain := mk(false).cNum(num)
	col := mk(true).cNum(num)
	verifCover("formatted")
	pn, cn := verifNums(plain), verifNums(col)
	verifAssert("coloured-shows-same-number", len(cn) == 1 && len(pn) == 1 && verifSameFloat(cn[0], pn[0]) && verifSameFloat(pn[0], num))
	w := verifWords(col)
	if num > 0 {
		verifAssert("positive-is-red", len(w) == 2 && w[0] == red && w[1] == reset)
	} else if num < 0 {
		verifAssert("negative-is-green", len(w) == 2 && w[0] == green && w[1] == reset)
	} else {
		verifAssert("zero-is-uncoloured", len(w) == 0)
	}
}

// Harness_presentation_numbers: colour, shortening and the old/left-aligned layouts never change
// which records and numbers a day shows: default output = no-totals part ++ totals-only part.
func Harness_presentation_numbers() {
	E := verifBound("E", 2)
	db, _ := shared.HGenBook()
	raw := shared.HGenRawDay(E)
	ln, _ := shared.NewLogNodeFromElements(shared.HTime(0), raw, nil)
	out := func(color, totals, totalsOnly bool) string {
		s := newVerifSink(-1)
		c := reporter.NewDefaultConfig()
		c.Output = s
		c.UseOldRegReporter = true
		c.Color, c.Totals, c.TotalsOnly = color, totals, totalsOnly
		r := NewRegReporter(c, db)
		r.Process(ln)
		r.Flush()
		return s.String()
	}
	base := out(false, true, false)
	verifCover("printed")
	// colour changes no number and no name
	col := out(true, true, false)
	bn, cn := verifNums(base), verifNums(col)
	verifAssert("colour-same-number-count", len(bn) == len(cn))
	if len(bn) == len(cn) {
		for i := range bn {
			verifAssert("colour-same-numbers", verifSameFloat(bn[i], cn[i]))
		}
	}
	verifAssert("colour-same-names", len(hNames(verifWords(base))) == len(hNames(verifWords(col))))
	// default = no-totals ++ totals-only
	nt, to := out(false, false, false), out(false, true, true)
	nn, tn := verifNums(nt), verifNums(to)
	verifAssert("default=no-totals++totals-only(count)", len(bn) == len(nn)+len(tn))
	if len(bn) == len(nn)+len(tn) {
		for i := range nn {
			verifAssert("default=no-totals++totals-only(numbers)", verifSameFloat(bn[i], nn[i]))
		}
		for i := range tn {
			verifAssert("default=no-totals++totals-only(numbers)", verifSameFloat(bn[len(nn)+i], tn[i]))
		}
	}
}
