package csv

import (
	"strconv"
	"strings"
	"time"

	"github.com/aquilax/hranoprovod-cli/cmd/hranoprovod-cli/v3/internal/reporter"
	"github.com/aquilax/hranoprovod-cli/v3/parser"
)

// hName: n symbolic bytes: first and last a letter, digit or non-ASCII byte; inner bytes
// anything but CR/LF - commas, double quotes, spaces, '/' and other punctuation included.
func hName(tag string, n int) string {
	s := verifBytes(tag, n)
	for i := 0; i < n; i++ {
		if i == 0 || i == n-1 {
			verifAssume(verifByteIn(s[i], "azAZ09\x80\xff"))
		} else {
			verifAssume(s[i] != '\n')
			verifAssume(s[i] != '\r')
		}
	}
	return s
}

func hNumTok(tag string) (string, float64) {
	m := 1 + verifChoose("m", verifBound("m", 2))
	s := verifBytes(tag, m)
	for i := 0; i < m; i++ {
		if i == 0 && m > 1 {
			verifAssume(verifByteIn(s[i], "09--"))
		} else {
			verifAssume(verifByteIn(s[i], "09"))
		}
	}
	verifAssume(verifPFOK(s))
	v, err := strconv.ParseFloat(s, 64)
	verifAssume(err == nil)
	return s, v
}

type hRowT struct {
	a, b string
	v    float64
}

func hCheckRecords(out string, want []hRowT) {
	recs := verifCSV(out)
	verifAssert("csv-one-row-per-record", len(recs) == len(want))
	if len(recs) != len(want) {
		return
	}
	for i, w := range want {
		verifAssert("csv-three-fields", len(recs[i]) == 3)
		if len(recs[i]) != 3 {
			continue
		}
		verifAssert("csv-first-field", recs[i][0] == w.a)
		verifAssert("csv-name-preserved", recs[i][1] == w.b)
		nums := verifNums(recs[i][2])
		verifAssert("csv-amount-is-one-number", len(nums) == 1)
		if len(nums) == 1 {
			verifAssert("csv-amount-value", verifSameFloat(nums[0], w.v))
		}
	}
}

// Harness_csv_log: `csv log` emits exactly one row per (day, distinct food) in file order:
// ISO date, the name unchanged (commas, quotes, non-ASCII bytes included), the summed quantity.
func Harness_csv_log() {
	n := verifBound("n", 3)
	layout := "2006/01/02"
	src := ""
	var want []hRowT
	for d := 0; d < 2; d++ {
		head := verifDay("day", layout, 300)
		t, _ := time.Parse(layout, head)
		iso := t.Format("2006-01-02")
		src += head + ":\n"
		name1 := hName("name", n)
		tok1, v1 := hNumTok("num")
		src += "  " + name1 + ": " + tok1 + "\n"
		switch verifChoose("second", 3) {
		case 0:
			want = append(want, hRowT{iso, name1, v1})
		case 1: // the same food again: merged
			tok2, v2 := hNumTok("num")
			src += "  " + name1 + ": " + tok2 + "\n"
			want = append(want, hRowT{iso, name1, v1 + v2})
		case 2: // another food
			name2 := hName("name", 2)
			verifAssume(name2 != name1)
			tok2, v2 := hNumTok("num")
			src += "  " + name2 + ": " + tok2 + "\n"
			want = append(want, hRowT{iso, name1, v1}, hRowT{iso, name2, v2})
		}
	}
	sink := newVerifSink(-1)
	err := CSVLog(strings.NewReader(src), CSVLogConfig{DateFormat: layout, ParserConfig: parser.NewDefaultConfig(), ReporterConfig: NewCSVConfig(reporter.NewCommonConfig(sink, false))})
	verifCover("exported")
	verifAssert("csv-export-ok", err == nil)
	hCheckRecords(sink.String(), want)
}

// Harness_csv_database: one row per entry in file order for the raw book; one row per
// (recipe, resolved element), sorted by recipe then element, for the resolved book.
func Harness_csv_database() {
	n := verifBound("n", 3)
	resolved := verifChoose("resolved", 2) == 1
	// recipe names with symbolic bytes; basic elements "x" and "y"
	rA := hName("recipe", n)
	rB := hName("recipe", 2)
	verifAssume(rA != rB)
	ta, va := hNumTok("num")
	tb, vb := hNumTok("num")
	tc, vc := hNumTok("num")
	td, vd := hNumTok("num")
	// rA: { y: va, x: vb }   rB: { rA: vc, x: vd }   (rB is declared first; x reaches rB twice)
	src := rB + ":\n  " + rA + ": " + tc + "\n  x: " + td + "\n" + rA + ":\n  y: " + ta + "\n  x: " + tb + "\n"
	sink := newVerifSink(-1)
	cfg := reporter.NewDefaultConfig()
	cfg.Output = sink
	var err error
	var want []hRowT
	if !resolved {
		err = CSVDatabase(strings.NewReader(src), CSVDatabaseConfig{ParserConfig: parser.NewDefaultConfig(), ReporterConfig: cfg})
		want = []hRowT{{rB, rA, vc}, {rB, "x", vd}, {rA, "y", va}, {rA, "x", vb}}
	} else {
		err = CSVDatabaseResolved(strings.NewReader(src), CSVDatabaseResolvedConfig{ParserConfig: parser.NewDefaultConfig(), ReporterConfig: cfg, ResolverConfig: hResolverCfg()})
		rowsA := []hRowT{{rA, "x", vb}, {rA, "y", va}}
		rowsB := []hRowT{{rB, "x", vb*vc + vd}, {rB, "y", va * vc}}
		if rA < rB {
			want = append(rowsA, rowsB...)
		} else {
			want = append(rowsB, rowsA...)
		}
	}
	verifCover("exported")
	verifAssert("csv-export-ok", err == nil)
	hCheckRecords(sink.String(), want)
}
