package csv

import "github.com/aquilax/hranoprovod-cli/v3/resolver"

func hResolverCfg() resolver.Config { return resolver.NewDefaultConfig() }
