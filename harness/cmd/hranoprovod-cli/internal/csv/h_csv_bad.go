package csv

import (
	"strings"

	"github.com/aquilax/hranoprovod-cli/cmd/hranoprovod-cli/v3/internal/reporter"
	"github.com/aquilax/hranoprovod-cli/v3/parser"
)

func hBadBody() string {
	k := 1 + verifChoose("k", verifBound("k", 2))
	body := verifBytes("body", k)
	for i := 0; i < k; i++ {
		c := body[i]
		if i == 0 || i == k-1 {
			verifAssume(verifByteIn(c, "azAZ09\x80\xff"))
		} else {
			verifAssume(verifByteIn(c, "!~\x80\xff"))
		}
	}
	return body
}

// Harness_csv_database_malformed: `csv database` on a book with a malformed line must fail
// with the parser's error, not crash (C08) and not succeed (C09).
func Harness_csv_database_malformed() {
	src := "r0:\n  a: 1\n"
	if verifChoose("where", 2) == 0 {
		src += "  " + hBadBody() + "\n"
	} else {
		src += "  b: x" + hBadBody() + "\n"
	}
	src += "r1:\n  c: 2\n"
	sink := newVerifSink(-1)
	cfg := reporter.NewDefaultConfig()
	cfg.Output = sink
	verifLabel("site", "csv.CSVDatabase")
	err := CSVDatabase(strings.NewReader(src), CSVDatabaseConfig{ParserConfig: parser.NewDefaultConfig(), ReporterConfig: cfg})
	verifCover("ran")
	verifAssert("malformed-fails-command", err != nil)
}

// Harness_csv_resolved_malformed: the same for `csv database-resolved` and `csv log`.
func Harness_csv_resolved_malformed() {
	src := "r0:\n  a: 1\n  " + hBadBody() + "\nr1:\n  c: 2\n"
	sink := newVerifSink(-1)
	cfg := reporter.NewDefaultConfig()
	cfg.Output = sink
	var err error
	if verifChoose("cmd", 2) == 0 {
		verifLabel("site", "csv.CSVDatabaseResolved")
		err = CSVDatabaseResolved(strings.NewReader(src), CSVDatabaseResolvedConfig{ParserConfig: parser.NewDefaultConfig(), ReporterConfig: cfg, ResolverConfig: hResolverCfg()})
	} else {
		verifLabel("site", "csv.CSVLog")
		src = verifDay("d", "2006/01/02", 100) + ":\n  a: 1\n  " + hBadBody() + "\n"
		err = CSVLog(strings.NewReader(src), CSVLogConfig{DateFormat: "2006/01/02", ParserConfig: parser.NewDefaultConfig(), ReporterConfig: NewCSVConfig(reporter.NewCommonConfig(sink, false))})
	}
	verifCover("ran")
	verifAssert("malformed-fails-command", err != nil)
}
