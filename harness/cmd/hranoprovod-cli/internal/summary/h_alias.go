package summary

import "github.com/urfave/cli/v2"

type cli_Context = cli.Context
