package summary

import (
	"io"
	"strings"
	"time"

	"github.com/aquilax/hranoprovod-cli/cmd/hranoprovod-cli/v3/internal/options"
	"github.com/aquilax/hranoprovod-cli/cmd/hranoprovod-cli/v3/internal/utils"
	shared "github.com/aquilax/hranoprovod-cli/v3"
	"github.com/aquilax/hranoprovod-cli/v3/filter"
	"github.com/aquilax/hranoprovod-cli/v3/parser"
)

type hCollect struct{ days []time.Time }

func (c *hCollect) Process(ln *shared.LogNode) error { c.days = append(c.days, ln.Time); return nil }
func (c *hCollect) Flush() error                     { return nil }

var hDates = []string{"2020/12/31", "2021/01/01", "2021/01/24", "2021/01/25", "2021/02/28", "2021/03/01"}

// Harness_summary_day: `summary DATE` (an explicit date, `today` or `yesterday`, resolved against
// --today) selects exactly the log headings of that calendar date - in UTC, in a zone west and in
// a zone east of it (time.Local set to a fixed zone). The command's real Action runs (real
// urfave/cli Context, real time.Date/Year/Month/Day code); dates range over a window around
// month and year ends. All-concrete paths: this is exhaustive enumeration of a small window, the
// executor acting as interpreter; it supplements the symbolic interval check.
func Harness_summary_day() {
	offsets := []int{0, -5 * 3600, 13 * 3600, -10 * 3600}
	off := offsets[verifChoose("zone", len(offsets))]
	saved := time.Local
	time.Local = time.FixedZone("verif", off)
	defer func() { time.Local = saved }()
	ti := verifChoose("today", len(hDates))
	today := hDates[ti]
	arg, want := "", ""
	switch verifChoose("arg", 3) {
	case 0:
		arg, want = "today", today
	case 1:
		if ti == 0 {
			verifAssume(false)
		}
		arg, want = "yesterday", hDates[ti-1]
		// hDates are not all consecutive: only use pairs that are
		t0, _ := time.Parse("2006/01/02", hDates[ti-1])
		t1, _ := time.Parse("2006/01/02", today)
		verifAssume(t1.Sub(t0) == 24*time.Hour)
	case 2:
		k := verifChoose("explicit", len(hDates))
		arg, want = hDates[k], hDates[k]
	}
	logSrc := ""
	for _, d := range hDates {
		logSrc += d + ":\n  a: 1\n"
	}
	c, err := options.HCtx("", []string{"--today=" + today}, nil)
	verifAssume(err == nil)
	sub, err := options.HCtxArgs(c, []string{arg})
	verifAssume(err == nil)
	var got []time.Time
	cu := utils.CmdUtils{
		WithFileReaders: func(fileNames []string, cb func([]io.Reader) error) error {
			return cb([]io.Reader{strings.NewReader(""), strings.NewReader(logSrc)})
		},
		WithOptions: func(c *cli_Context, cb func(*options.Options) error) error {
			o := options.New()
			if err := o.Load(c, false); err != nil {
				return err
			}
			return cb(o)
		},
	}
	cmd := NewSummaryCommand(cu, func(logStream, dbStream io.Reader, sc SummaryConfig) error {
		r := &hCollect{}
		werr := utils.WalkNodesInStream(logStream, sc.DateFormat, parser.NewDefaultConfig(), filter.GetIntervalNodeFilter(sc.FilterConfig), r)
		got = r.days
		return werr
	})
	aerr := cmd.Action(sub)
	verifCover("ran")
	verifAssert("summary-ok", aerr == nil)
	wantT, _ := time.Parse("2006/01/02", want)
	verifAssert("summary-selects-exactly-that-day", len(got) == 1 && got[0].Equal(wantT))
}
