package reporter

import (
	shared "github.com/aquilax/hranoprovod-cli/v3"
)

func hCheckItem(item reportItem, foods []shared.HFood, book *shared.HBook, showElements, showTotals bool) {
	cs := shared.HContributions(foods, book)
	if showElements {
		verifAssert("foods-shown", item.Elements != nil && *item.Elements != nil)
		if item.Elements != nil && *item.Elements != nil {
			els := *item.Elements
			verifAssert("food-count", len(els) == len(foods))
			if len(els) == len(foods) {
				k := 0
				for i, f := range foods {
					verifAssert("food-name-order", els[i].Name == f.Name)
					verifAssert("food-quantity", verifSameFloat(els[i].Value, f.Qty))
					n := 0
					for k+n < len(cs) && cs[k+n].Food == f.Name {
						n++
					}
					verifAssert("ingredient-count", len(els[i].Ingredients) == n)
					if len(els[i].Ingredients) == n {
						for j := 0; j < n; j++ {
							verifAssert("ingredient-name", els[i].Ingredients[j].Name == cs[k+j].Elem)
							verifAssert("ingredient-amount", verifSameFloat(els[i].Ingredients[j].Value, cs[k+j].Amt))
						}
					}
					k += n
				}
			}
		}
	} else {
		verifAssert("foods-hidden", item.Elements == nil || *item.Elements == nil)
	}
	if showTotals {
		want := shared.HTotals(cs)
		verifAssert("totals-shown", item.Totals != nil)
		if item.Totals != nil {
			got := *item.Totals
			verifAssert("total-count", len(got) == len(want))
			if len(got) == len(want) {
				for i, w := range want {
					verifAssert("total-name-sorted", got[i].Name == w.Name)
					verifAssert("total-positive", verifSameFloat(got[i].Positive, w.Pos))
					verifAssert("total-negative", verifSameFloat(got[i].Negative, w.Neg))
					verifAssert("total-sum", verifSameFloat(got[i].Sum, w.Pos+w.Neg))
				}
			}
		}
	} else {
		verifAssert("totals-hidden", item.Totals == nil)
	}
}

// Harness_day_item: one log day through NewLogNodeFromElements and GetReportItem under every
// (Totals, TotalsOnly) setting, against the reference model. With bound earlier=1 another day
// (one entry) is reported first: what a day shows does not depend on the days before it.
func Harness_day_item() {
	E := verifBound("E", 2)
	db, book := shared.HGenBook()
	cfg := NewDefaultConfig()
	cfg.Totals = verifChoose("totals", 2) == 1
	cfg.TotalsOnly = verifChoose("totals-only", 2) == 1
	if verifBound("earlier", 0) == 1 {
		raw0 := shared.HGenRawDay(1)
		ln0, _ := shared.NewLogNodeFromElements(shared.HTime(0), raw0, nil)
		item0 := GetReportItem(ln0, db, cfg)
		hCheckItem(item0, shared.HDistinct(raw0), book, !cfg.TotalsOnly, cfg.Totals)
	}
	raw := shared.HGenRawDay(E)
	foods := shared.HDistinct(raw)
	ln, err := shared.NewLogNodeFromElements(shared.HTime(1), raw, nil)
	verifAssert("lognode-no-error", err == nil)
	item := GetReportItem(ln, db, cfg)
	verifCover("item")
	verifAssert("item-time", item.Time.Equal(ln.Time))
	hCheckItem(item, foods, book, !cfg.TotalsOnly, cfg.Totals)
}

// Harness_day_item_long_names: names longer than the columns, two of them equal after
// shortening; --shorten must not change which records and totals a day has.
func Harness_day_item_long_names() {
	const la = "sweets/pasencia white/sm bonus/100g"
	const lb = "sweets/pasencia brown/sm bonus/100g"
	db := shared.NewDBNodeMap()
	raw := shared.NewElements()
	qa, qb := verifFloat("qty"), verifFloat("qty")
	switch verifChoose("in-book", 3) {
	case 2: // the long names are recipes of the book
		ea, eb := shared.NewElements(), shared.NewElements()
		ea.Add("x", verifFloat("amt"))
		eb.Add("y", verifFloat("amt"))
		db.Push(&shared.DBNode{Header: la, Elements: ea})
		db.Push(&shared.DBNode{Header: lb, Elements: eb})
		raw.Add(la, qa)
		raw.Add(lb, qb)
	case 1:
		ea, eb := shared.NewElements(), shared.NewElements()
		ea.Add(la, verifFloat("amt"))
		eb.Add(lb, verifFloat("amt"))
		db.Push(&shared.DBNode{Header: "food/one", Elements: ea})
		db.Push(&shared.DBNode{Header: "food/two", Elements: eb})
		raw.Add("food/one", qa)
		raw.Add("food/two", qb)
	default:
		raw.Add(la, qa)
		raw.Add(lb, qb)
	}
	ln, _ := shared.NewLogNodeFromElements(shared.HTime(0), raw, nil)
	cfg := NewDefaultConfig()
	plain := GetReportItem(ln, db, cfg)
	cfg.ShortenStrings = true
	short := GetReportItem(ln, db, cfg)
	verifCover("item")
	verifAssert("shorten-keeps-total-rows", plain.Totals != nil && short.Totals != nil && len(*plain.Totals) == 2 && len(*short.Totals) == 2)
	if plain.Totals != nil && short.Totals != nil && len(*plain.Totals) == len(*short.Totals) {
		for i := range *plain.Totals {
			a, b := (*plain.Totals)[i], (*short.Totals)[i]
			verifAssert("shorten-keeps-total-names", a.Name == b.Name)
			verifAssert("shorten-keeps-total-numbers", verifSameFloat(a.Sum, b.Sum) && verifSameFloat(a.Positive, b.Positive) && verifSameFloat(a.Negative, b.Negative))
		}
	}
	verifAssert("shorten-keeps-food-rows", plain.Elements != nil && short.Elements != nil && len(*plain.Elements) == len(*short.Elements))
	if plain.Elements != nil && short.Elements != nil && len(*plain.Elements) == len(*short.Elements) {
		for i := range *plain.Elements {
			a, b := (*plain.Elements)[i], (*short.Elements)[i]
			verifAssert("shorten-keeps-food-numbers", verifSameFloat(a.Value, b.Value))
			verifAssert("shorten-keeps-ingredient-rows", len(a.Ingredients) == len(b.Ingredients))
			if len(a.Ingredients) == len(b.Ingredients) {
				for j := range a.Ingredients {
					verifAssert("shorten-keeps-ingredient-numbers", verifSameFloat(a.Ingredients[j].Value, b.Ingredients[j].Value))
				}
			}
		}
	}
}
