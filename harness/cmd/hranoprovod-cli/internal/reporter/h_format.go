package reporter

// Harness_format_value: for every binary64 (NaN, +-0, +-Inf included): the coloured rendering
// is the plain rendering wrapped in escape codes - red iff the amount is positive, green iff
// negative, none otherwise.
func Harness_format_value() {
	num := verifFloat("num")
	plain := getFormatValue(false)(num)
	col := getFormatValue(true)(num)
	verifCover("formatted")
	pn, cn := verifNums(plain), verifNums(col)
	verifAssert("plain-is-one-number", len(pn) == 1 && len(verifWords(plain)) == 0)
	verifAssert("coloured-shows-same-number", len(cn) == 1 && len(pn) == 1 && verifSameFloat(cn[0], pn[0]) && verifSameFloat(pn[0], num))
	w := verifWords(col)
	if num > 0 {
		verifLabel("sign", "positive")
		verifAssert("positive-is-red", len(w) == 2 && w[0] == red && w[1] == reset)
	} else if num < 0 {
		verifLabel("sign", "negative")
		verifAssert("negative-is-green", len(w) == 2 && w[0] == green && w[1] == reset)
	} else {
		verifLabel("sign", "zero-or-nan")
		verifAssert("zero-is-uncoloured", len(w) == 0)
	}
}

// Harness_shorten: a shortened name keeps a prefix and a suffix of the original around the
// omission mark and has exactly the column width; a name that fits is unchanged.
func Harness_shorten() {
	widths := []int{20, 27}
	max := widths[verifChoose("width", 2)]
	n := 1 + verifChoose("len", verifBound("len", 40))
	name := verifBytes("name", n)
	for i := 0; i < n; i++ {
		verifAssume(verifByteIn(name[i], "!~"))
	}
	out := getShorten(true)(name, max)
	same := getShorten(false)(name, max)
	verifCover("shortened")
	verifAssert("no-shorten-is-identity", same == name)
	if n <= max {
		verifAssert("fitting-name-unchanged", out == name)
		return
	}
	r := []rune(out)
	verifAssert("shortened-to-width", len(r) == max)
	if len(r) != max {
		return
	}
	k := -1
	for i, c := range r {
		if c == '…' {
			k = i
		}
	}
	verifAssert("has-omission-mark", k >= 0)
	if k < 0 {
		return
	}
	pre, suf := string(r[:k]), string(r[k+1:])
	verifAssert("keeps-prefix", len(pre) <= n && name[:len(pre)] == pre)
	verifAssert("keeps-suffix", len(suf) <= n && name[n-len(suf):] == suf)
}
