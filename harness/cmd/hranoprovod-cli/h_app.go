package main

// Whole-application harnesses: GetApp().Run(args) with the real flag definitions (names,
// defaults, EnvVars, aliases), the real urfave/cli flag and environment handling, the real
// Action closures of every command, on virtual files, a virtual environment and a recording
// standard output.

import (
	"strings"
	"time"

	"github.com/aquilax/hranoprovod-cli/cmd/hranoprovod-cli/v3/internal/options"
	"github.com/urfave/cli/v2"
)

func hApp(failAt int, args ...string) (string, error) {
	verifStdoutBegin(failAt)
	err := GetApp().Run(append([]string{"hranoprovod-cli"}, args...))
	return verifStdoutEnd(), err
}

// hAppProbe runs the application with an extra command whose Action loads the options exactly
// as every real command does (options.New + Load(c, true)) and hands them to the harness.
func hAppProbe(args ...string) (*options.Options, error) {
	var got *options.Options
	app := GetApp()
	app.Commands = append(app.Commands, &cli.Command{Name: "verif-probe", Action: func(c *cli.Context) error {
		o := options.New()
		if err := o.Load(c, true); err != nil {
			return err
		}
		got = o
		return nil
	}})
	verifStdoutBegin(-1)
	err := app.Run(append(append([]string{"hranoprovod-cli"}, args...), "verif-probe"))
	verifStdoutEnd()
	return got, err
}

type hSetting struct {
	name, flag, env, cfgSection, cfgKey string
	flagV, envV, cfgV, dflt             string
}

var hSettings = []hSetting{
	{"database", "--database", "HR_DATABASE", "Global", "DbFileName", "flag-db.yaml", "env-db.yaml", "cfg-db.yaml", "food.yaml"},
	{"logfile", "--logfile", "HR_LOGFILE", "Global", "LogFileName", "flag-log.yaml", "env-log.yaml", "cfg-log.yaml", "log.yaml"},
	{"date-format", "--date-format", "HR_DATE_FORMAT", "Global", "DateFormat", "02.01.2006", "2006.01.02", "2006-01-02", "2006/01/02"},
	{"maxdepth", "--maxdepth", "HR_MAXDEPTH", "Resolver", "MaxDepth", "7", "6", "5", "10"},
}

// Harness_app_settings: flag > environment > configuration file > default for the recipe-book
// path, log path, date format and resolve depth, and the current date read in the date format
// in effect, through the real application (root.go flag definitions with their EnvVars and
// defaults, urfave/cli, options.Load). The configuration file is at the default location
// ($HOME/.hranoprovod/config), named by --config or named by HR_CONFIG; a named file that does
// not exist is an error, a missing default file is not.
func hCfgPreamble() string {
	p := ""
	for i := 0; i < 100; i++ {
		p += "; hranoprovod-cli configuration: a comment line\n"
	}
	return p
}

func Harness_app_settings() {
	// 0 no file; 1 default location; 2 --config; 3 HR_CONFIG; 4 --config missing; 5 HR_CONFIG missing;
	// 6 both --config (present, wins) and HR_CONFIG (other file)
	cfgMode := verifChoose("config", 7)
	verifLabel("config-file", []string{"absent", "default-location", "flag", "env", "flag-missing", "env-missing", "flag-over-env"}[cfgMode])
	full := verifBound("full", 0) == 1
	focus := 0
	others := 0
	if !full {
		focus = verifChoose("focus", len(hSettings))
		others = verifChoose("others", 4) // sources of the non-focus settings: none, flag, env, config
	}
	hasCfg := cfgMode == 1 || cfgMode == 2 || cfgMode == 3 || cfgMode == 6
	var args []string
	want := map[string]string{}
	ini := map[string]string{"Global": "", "Resolver": ""}
	for i, s := range hSettings {
		var f, e, c bool
		if full || i == focus {
			f, e = verifChoose("flag-"+s.name, 2) == 1, verifChoose("env-"+s.name, 2) == 1
			c = hasCfg && verifChoose("cfg-"+s.name, 2) == 1
		} else {
			f, e, c = others == 1, others == 2, others == 3 && hasCfg
		}
		w := s.dflt
		if c {
			ini[s.cfgSection] += s.cfgKey + " = " + s.cfgV + "\n"
			w = s.cfgV
		}
		if e {
			verifSetenv(s.env, s.envV)
			w = s.envV
		}
		if f {
			args = append(args, s.flag+"="+s.flagV)
			w = s.flagV
		}
		want[s.name] = w
	}
	// the current date from the configuration file (RFC 3339), used when --today is absent
	cfgToday := hasCfg && verifChoose("cfg-today", 2) == 1
	if cfgToday {
		ini["Global"] += "Now = 2021-01-24T00:00:00Z\n"
	}
	text := "[Global]\n" + ini["Global"] + "[Resolver]\n" + ini["Resolver"]
	if hasCfg && verifChoose("cfg-preamble", 2) == 1 {
		// a file longer than one buffer (4096 bytes): about 5 KiB of comments before the settings
		verifLabel("cfg-preamble", "5 KiB of comment lines before the first section")
		text = hCfgPreamble() + text
	}
	switch cfgMode {
	case 1:
		verifHomeFile("/.hranoprovod/config", text)
	case 2:
		args = append(args, "--config="+verifFile("cfg-flag", text))
	case 3:
		verifSetenv("HR_CONFIG", verifFile("cfg-env", text))
	case 4:
		args = append(args, "--config="+verifMissingFile("cfg-flag"))
	case 5:
		verifSetenv("HR_CONFIG", verifMissingFile("cfg-env"))
	case 6:
		args = append(args, "--config="+verifFile("cfg-flag", text))
		verifSetenv("HR_CONFIG", verifFile("cfg-env", "[Global]\nDbFileName = wrong-db.yaml\nLogFileName = wrong-log.yaml\nDateFormat = Jan 2 2006\n[Resolver]\nMaxDepth = 3\n"))
	}
	withToday := verifChoose("today", 2) == 1
	today := ""
	if withToday {
		today = verifDay("today", want["date-format"], 400)
		args = append(args, "--today="+today)
	}
	o, err := hAppProbe(args...)
	verifCover("loaded")
	if cfgMode == 4 || cfgMode == 5 {
		verifAssert("explicit-missing-config-is-error", err != nil)
		return
	}
	verifAssert("load-ok", err == nil && o != nil)
	if err != nil || o == nil {
		return
	}
	verifAssert("database:flag>env>config>default", o.GlobalConfig.DbFileName == want["database"])
	verifAssert("logfile:flag>env>config>default", o.GlobalConfig.LogFileName == want["logfile"])
	verifAssert("date-format:flag>env>config>default", o.GlobalConfig.DateFormat == want["date-format"])
	verifAssert("maxdepth:flag>env>config>default", o.ResolverConfig.MaxDepth == int(want["maxdepth"][0]-'0')+9*(len(want["maxdepth"])-1))
	if withToday {
		tt, perr := time.Parse(want["date-format"], today)
		verifAssert("today:read-with-effective-date-format", perr == nil && o.GlobalConfig.Now.Equal(tt))
	}
	if !withToday && cfgToday {
		verifAssert("today:flag>config>clock", o.GlobalConfig.Now.Equal(time.Date(2021, 1, 24, 0, 0, 0, 0, time.UTC)))
	} else if !withToday {
		// without --today the current date is the clock's, whatever else was loaded
		verifAssert("today:defaults-to-the-clock", !o.GlobalConfig.Now.IsZero())
	}
	verifAssert("print-layout=parse-layout", o.ReporterConfig.DateFormat == o.GlobalConfig.DateFormat)
}

// ---- period selection through the real commands

type hPeriodCmd struct {
	name     string
	args     []string
	subFlags bool // the command declares --begin/--end itself
}

var hPeriodCmds = []hPeriodCmd{
	{"register", []string{"register"}, true},
	{"register-old", []string{"register", "--use-old-reg-reporter"}, true},
	{"register-single-element", []string{"reg", "-s", "x"}, true},
	{"balance", []string{"balance"}, true},
	{"balance-collapse", []string{"bal", "-c"}, true},
	{"print", []string{"print"}, true},
	{"csv-log", []string{"csv", "log"}, true},
	{"report-totals", []string{"report", "totals"}, false},
	{"report-quantity", []string{"report", "quantity"}, false},
	{"report-unresolved", []string{"report", "unresolved"}, false},
}

const hAppDB = "f0:\n  x: 2\n  y: 1\nf1:\n  f0: 2\n  x: 1\n"

// Harness_app_period: for every period-aware command, run through the real application on a
// log of R days with symbolic dates (any order, repeats), with begin/end given globally, on
// the sub-command or on both (the sub-command wins): the output and status equal those of
// the same command on the log with the out-of-period days deleted and no period.
func Harness_app_period() {
	R := verifBound("R", 2)
	ci := verifBound("command", -1)
	if ci < 0 {
		ci = verifChoose("command", len(hPeriodCmds))
	}
	cmd := hPeriodCmds[ci]
	verifLabel("site", cmd.name)
	layout := "2006/01/02"
	heads := make([]string, R)
	for i := range heads {
		heads[i] = verifDay("day", layout, 40)
	}
	if R >= 3 && verifChoose("same-heading-again", 2) == 1 {
		// the last day is written exactly like the first (the same date, the same text)
		heads[R-1] = heads[0]
	}
	foods := []string{"f0", "f1", "unknown"}
	mk := func(keep []bool) string {
		src := ""
		for i := 0; i < R; i++ {
			if keep == nil || keep[i] {
				src += heads[i] + ":\n  " + foods[i%3] + ": 1\n  f0: 2\n"
			}
		}
		return src
	}
	db := verifFile("db", hAppDB)
	global := []string{"--database=" + db, "--no-color"}
	var sub []string
	// where the period is given: 0 globally, 1 on the sub-command, 2 both (different values; the sub-command wins)
	pos := 0
	if cmd.subFlags {
		pos = verifChoose("position", 3)
	}
	verifLabel("position", []string{"global", "sub-command", "both"}[pos])
	hasB, hasE := verifChoose("begin", 2) == 1, verifChoose("end", 2) == 1
	var b, e time.Time
	add := func(flag, tag string, short bool) time.Time {
		d := verifDay(tag, layout, 40)
		t, _ := time.Parse(layout, d)
		switch pos {
		case 0:
			global = append(global, "--"+flag+"="+d)
		case 1:
			if short {
				sub = append(sub, "-"+flag[:1], d)
			} else {
				sub = append(sub, "--"+flag, d)
			}
		case 2:
			global = append(global, "--"+flag, verifDay(tag+"-global", layout, 40))
			sub = append(sub, "--"+flag+"="+d)
		}
		return t
	}
	if hasB {
		b = add("begin", "begin", true)
	}
	if hasE {
		e = add("end", "end", false)
	}
	keep := make([]bool, R)
	for i := range heads {
		t, _ := time.Parse(layout, heads[i])
		in := true
		if hasB && t.Before(b) {
			in = false
		}
		if hasE && t.After(e) {
			in = false
		}
		keep[i] = in
	}
	a1 := append(append(append([]string{"--logfile=" + verifFile("log-full", mk(nil))}, global...), cmd.args...), sub...)
	out1, err1 := hApp(-1, a1...)
	a2 := append([]string{"--logfile=" + verifFile("log-kept", mk(keep)), "--database=" + db, "--no-color"}, cmd.args...)
	out2, err2 := hApp(-1, a2...)
	verifCover("ran")
	verifAssert("period-run-ok", err1 == nil && err2 == nil)
	verifAssert("period-output=output-on-filtered-log", out1 == out2)
}

// ---- malformed and unreadable input through the real commands

type hFileCmd struct {
	name    string
	args    []string
	log, db bool // which files the command reads
}

var hFileCmds = []hFileCmd{
	{"register", []string{"register"}, true, true},
	{"register-single-food", []string{"reg", "-f", "f0"}, true, true},
	{"register-group-by-food", []string{"reg", "-s", "x", "-g"}, true, true},
	{"balance", []string{"bal"}, true, true},
	{"balance-single-element", []string{"bal", "-s", "x"}, true, true},
	{"summary", []string{"summary", "2021/01/01"}, true, true},
	{"print", []string{"print"}, true, false},
	{"csv-log", []string{"csv", "log"}, true, false},
	{"csv-database", []string{"csv", "database"}, false, true},
	{"csv-database-resolved", []string{"csv", "database-resolved"}, false, true},
	{"report-element-total", []string{"report", "element-total", "x"}, false, true},
	{"report-unresolved", []string{"report", "unresolved"}, true, true},
	{"report-quantity", []string{"report", "quantity"}, true, false},
	{"report-totals", []string{"report", "totals"}, true, true},
	{"stats", []string{"stats"}, true, true},
	{"register-single-element", []string{"reg", "-s", "x"}, true, true},
}

const hAppLog = "2021/01/01:\n  f1: 2\n  x: 1\n  unknown: 3\n2021/01/02:\n  f0: 1.5\n"

// Harness_app_bad_input: every file-reading command, through the real application, with
// (a) a malformed line planted in the file it reads: it fails and the error quotes the line and
// its 1-based number; (b) a file that is a directory (every read fails): it fails;
// (c) well-formed files: it succeeds and writes something.
func Harness_app_bad_input() {
	ci := verifBound("command", -1)
	if ci < 0 {
		ci = verifChoose("command", len(hFileCmds))
	}
	cmd := hFileCmds[ci]
	verifLabel("site", cmd.name)
	// 0 none; 1 bad syntax in the log; 2 bad number in the log; 3 bad syntax in the book; 4 bad number in the book;
	// 5 log unreadable (a directory); 6 book unreadable (a directory);
	// 7 malformed line in a day after the end of the period in force (--end given globally)
	// 8 two malformed lines in the log; 9 two in the book: the FIRST is the one reported
	fault := verifChoose("fault", 10)
	verifLabel("fault", []string{"none", "log-bad-syntax", "log-bad-number", "book-bad-syntax", "book-bad-number", "log-is-directory", "book-is-directory", "log-bad-number-after-period", "log-two-malformed-lines", "book-two-malformed-lines"}[fault])
	logText, dbText := hAppLog, hAppDB
	badLine, badNo := "", ""
	switch fault {
	case 1:
		logText, badLine, badNo = "# c\n\n2021/01/01:\n  f1: 2\n  broken\n  x: 1\n2021/01/02:\n  f0: 1\n", "  broken", "5"
	case 2:
		logText, badLine, badNo = "2021/01/01:\n  f1: 2\n\n# c\n2021/01/02:\n  f0: 1\n  x: 1x\n", "  x: 1x", "7"
	case 3:
		dbText, badLine, badNo = "f0:\n  x: 2\n# c\n  y:1\nf1:\n  f0: 2\n", "  y:1", "4"
	case 4:
		dbText, badLine, badNo = "\nf0:\n  x: two\n  y: 1\n", "  x: two", "3"
	case 8:
		logText, badLine, badNo = "2021/01/01:\n  f1: 2\n  calories250\n  x: 1\n2021/01/02:\n  f0: 1\n  fat: abc\n", "  calories250", "3"
	case 9:
		dbText, badLine, badNo = "f0:\n  x: 2\n  calories250\nf1:\n  f0: 2\n  fat: abc\n", "  calories250", "3"
	case 7:
		logText, badLine, badNo = "2021/01/01:\n  f1: 2\n2021/01/05:\n  f0: 1\n2021/01/06:\n  f0: 1\n  x: 1,5\n2021/01/01:\n  x: 1\n", "  x: 1,5", "7"
	}
	logName, dbName := "", ""
	switch fault {
	case 5:
		logName = verifDir("log")
	default:
		logName = verifFile("my$log", logText) // a path is a path: '$' is not an environment reference
	}
	switch fault {
	case 6:
		dbName = verifDir("db")
	default:
		dbName = verifFile("db$HOME", dbText)
	}
	relevant := fault == 0 || (cmd.log && (fault == 1 || fault == 2 || fault == 5 || fault == 7 || fault == 8)) || (cmd.db && (fault == 3 || fault == 4 || fault == 6 || fault == 9))
	if !relevant {
		return
	}
	global := []string{"--logfile=" + logName, "--database=" + dbName}
	if fault == 7 {
		global = append(global, "--end=2021/01/02")
	}
	out, err := hApp(-1, append(global, cmd.args...)...)
	verifCover("ran")
	switch {
	case fault == 0:
		verifAssert("well-formed-input-succeeds", err == nil && len(verifLines(out)) > 0)
	case fault <= 4 || fault >= 7:
		verifAssert("malformed-input-is-error", err != nil)
		if err != nil {
			msg := err.Error()
			verifAssert("malformed-error-quotes-line", strings.Contains(msg, badLine))
			verifAssert("malformed-error-has-line-number", strings.Contains(msg, "line "+badNo+" ") || strings.Contains(msg, "line "+badNo+","))
		}
	default:
		verifAssert("unreadable-input-is-error", err != nil)
	}
}

// Harness_app_failing_stdout: every report command through the real application with a
// standard output that rejects every write (/dev/full, closed descriptor): the run fails.
func Harness_app_failing_stdout() {
	ci := verifBound("command", -1)
	if ci < 0 {
		ci = verifChoose("command", len(hFileCmds)+1)
	}
	var args []string
	logText := []string{hAppLog, "", "# nothing logged yet\n", "24.01.2021:\n  f0: 1\n"}[verifChoose("log", 4)] // usual; empty; comments only; dates in another layout
	logName, dbName := verifFile("log", logText), verifFile("db", hAppDB)
	if ci == len(hFileCmds) {
		verifLabel("site", "lint")
		args = []string{"lint", verifFile("lint", hAppLog+"  broken\n")}
	} else {
		verifLabel("site", hFileCmds[ci].name)
		args = append([]string{"--logfile=" + logName, "--database=" + dbName}, hFileCmds[ci].args...)
		if hFileCmds[ci].args[0] == "reg" && verifChoose("csv-flag", 2) == 1 {
			args = append(args, "--csv")
			verifLabel("csv-flag", "set")
		}
	}
	// a healthy run first: what would be written, and whether the command succeeds at all
	out, err0 := hApp(-1, args...)
	verifCover("ran")
	if args[0] != "lint" && logText == hAppLog {
		verifAssert("complete-output-succeeds", err0 == nil)
	}
	if len(verifLines(out)) == 0 {
		return // nothing is written (an empty report): nothing can be lost
	}
	_, err := hApp(0, args...)
	verifAssert("lost-output-is-error", err != nil)
}

// Harness_app_probe: one run of the application (engine bring-up and step profile).
func Harness_app_probe() {
	out, err := hApp(-1, "--logfile="+verifFile("log", hAppLog), "--database="+verifFile("db", hAppDB), "bal")
	verifCover("ran")
	if err != nil {
		verifLabel("err", err.Error())
	}
	verifLabel("out", out)
	verifAssert("ok", err == nil && len(verifLines(out)) > 0)
}

// Harness_app_probe2: register with the default template (engine bring-up).
func Harness_app_probe2() {
	out, err := hApp(-1, "--logfile="+verifFile("log", hAppLog), "--database="+verifFile("db", hAppDB), "reg")
	verifLabel("out", out)
	verifAssert("ok", err != nil)
}

// ---- composition over the log history, through the real commands

var hComposeCmds = [][]string{
	{"register"},
	{"register", "--internal-template-name", "left-aligned"},
	{"register", "--use-old-reg-reporter"},
	{"csv", "log"},
	{"print"},
	{"reg", "-f", "f"},
	{"reg", "-s", "x"},
}

// Harness_app_compose: for the per-day reports, through the real application, the report of
// log1 ++ log2 is the report of log1 followed by the report of log2 - for day blocks with
// symbolic dates (any order, possibly the same date), with notes, with or without a period in
// force.
func Harness_app_compose() {
	ci := verifBound("command", -1)
	if ci < 0 {
		ci = verifChoose("command", len(hComposeCmds))
	}
	cmd := hComposeCmds[ci]
	verifLabel("site", strings.Join(cmd, " "))
	layout := "2006/01/02"
	notes := verifChoose("notes", 2) == 1
	n2 := verifChoose("entries-of-second-block", 3) // an empty day, one entry, two entries
	block := func(i int) string {
		src := verifDay("day", layout, 40) + ":\n"
		if notes {
			src += "  # mood: m" + string(rune('0'+i)) + "\n  # plain remark " + string(rune('0'+i)) + "\n"
		}
		n := 2
		if i == 2 {
			n = n2
		}
		// names one of which is the other followed by a digit, quantities whose digits make
		// name+quantity coincide ("f1"+"2" = "f"+"12"): whatever is remembered per portion must
		// not confuse the two
		foods := [][]string{{}, {"f1", "x"}, {"f", "fresh-food-unknown-to-the-book"}}[i]
		qty := [][]string{{}, {"2", "1"}, {"12", "3"}}[i]
		for k := 0; k < n; k++ {
			src += "  " + foods[k] + ": " + qty[k] + "\n"
		}
		return src
	}
	b1, b2 := block(1), block(2)
	db := verifFile("db", hAppDB+"f:\n  x: 5\n  f0: 1\n")
	global := []string{"--database=" + db, "--no-color"}
	if verifChoose("begin", 2) == 1 {
		global = append(global, "--begin="+verifDay("begin", layout, 40))
	}
	if verifChoose("end", 2) == 1 {
		global = append(global, "--end="+verifDay("end", layout, 40))
	}
	run := func(tag, text string) (string, error) {
		return hApp(-1, append(append([]string{"--logfile=" + verifFile(tag, text)}, global...), cmd...)...)
	}
	o12, e12 := run("log12", b1+b2)
	o1, e1 := run("log1", b1)
	o2, e2 := run("log2", b2)
	verifCover("composed")
	verifAssert("compose-runs-ok", e12 == nil && e1 == nil && e2 == nil)
	verifAssert("report(log1++log2)=report(log1)++report(log2)", o12 == o1+o2)
}

// Harness_main_exit_status: the program's own main() - GetApp().Run(os.Args), log.Fatal, the
// exit status - for every report command with a healthy standard output, /dev/full and a
// closed pipe, and for malformed and unreadable input: the exit status is 0 exactly when the
// whole report was written and the input was read completely and is well formed.
func Harness_main_exit_status() {
	ci := verifBound("command", -1)
	if ci < 0 {
		ci = verifChoose("command", len(hFileCmds)+1)
	}
	// 0 all well; 1 stdout is a full device; 2 stdout is a closed pipe; 3 malformed line in the
	// file(s) the command reads; 4 the file(s) it reads are directories
	scen := verifChoose("scenario", 5)
	verifLabel("scenario", []string{"healthy", "stdout-full-device", "stdout-closed-pipe", "malformed-input", "unreadable-input"}[scen])
	logText, dbText := hAppLog, hAppDB
	if scen == 3 {
		logText = "2021/01/01:\n  f1: 2\n  x: 1x\n"
		dbText = "f0:\n  x:2\n"
	}
	logName, dbName := "", ""
	if scen == 4 {
		logName, dbName = verifDir("log"), verifDir("db")
	} else {
		logName, dbName = verifFile("log", logText), verifFile("db", dbText)
	}
	args := []string{"hranoprovod-cli"}
	if ci == len(hFileCmds) {
		verifLabel("site", "lint")
		args = append(args, "lint", logName)
	} else {
		verifLabel("site", hFileCmds[ci].name)
		args = append(append(args, "--logfile="+logName, "--database="+dbName), hFileCmds[ci].args...)
	}
	kind := 0
	if scen == 1 || scen == 2 {
		kind = scen
	}
	code := verifMain(kind, args)
	verifCover("ran")
	switch scen {
	case 0:
		verifAssert("exit-0-on-success", code == 0)
	case 1, 2:
		verifAssert("lost-output-is-nonzero-exit", code != 0)
	case 3:
		// lint's own contract is to print the malformed lines; whether its exit status then
		// is non-zero is not stated by the property and not asserted here
		if ci != len(hFileCmds) {
			verifAssert("malformed-input-is-nonzero-exit", code != 0)
		}
	case 4:
		verifAssert("unreadable-input-is-nonzero-exit", code != 0)
	}
}

// Harness_app_single_food_patterns: `register -f PATTERN` for well-formed and malformed regular
// expressions (flag shapes reaching code that compiles user text): never a panic; a malformed
// pattern is an error, a well-formed one succeeds.
func Harness_app_single_food_patterns() {
	pats := []string{"f0", "f.", "^f[01]$", "", "bread (white", "[", "*cup", "a{2,1}", "x\\", "f0)", "(?P<n", "\xff("}
	valid := []bool{true, true, true, true, false, false, false, false, false, false, false, false}
	i := verifChoose("pattern", len(pats))
	verifLabel("pattern", pats[i])
	_, err := hApp(-1, "--logfile="+verifFile("log", hAppLog), "--database="+verifFile("db", hAppDB), "reg", "-f", pats[i])
	verifCover("ran")
	if valid[i] {
		verifAssert("valid-pattern-runs", err == nil)
	} else {
		verifAssert("malformed-pattern-is-error", err != nil)
	}
}

// Harness_app_cyclic_book: a cyclic recipe book (self reference, two-cycle, cycle below a
// healthy recipe) under every --maxdepth in {-1, 0, 1, 2, default}: every command that resolves
// the book terminates with an error or a report - it never recurses without bound.
func Harness_app_cyclic_book() {
	books := []string{
		"a:\n  a: 1\n",
		"a:\n  x: 1\n  b: 2\nb:\n  a: 1\n",
		"top:\n  a: 1\na:\n  b: 1\nb:\n  c: 1\nc:\n  a: 2\n  x: 1\n",
		"a:\n  x: 1\nb:\n  a: 2\n", // acyclic control
	}
	bi := verifChoose("book", len(books))
	depths := []string{"", "-1", "0", "1", "2"}
	di := verifChoose("maxdepth", len(depths))
	verifLabel("maxdepth", depths[di])
	cmds := [][]string{{"csv", "database-resolved"}, {"reg"}, {"bal"}, {"report", "element-total", "x"}}
	cmd := cmds[verifChoose("command", len(cmds))]
	args := []string{"--logfile=" + verifFile("log", "2021/01/01:\n  a: 1\n"), "--database=" + verifFile("db", books[bi])}
	if depths[di] != "" {
		args = append(args, "--maxdepth="+depths[di])
	}
	_, err := hApp(-1, append(args, cmd...)...)
	verifCover("ran")
	if bi < 3 {
		verifAssert("cyclic-book-is-error", err != nil)
	} else if depths[di] == "" {
		verifAssert("acyclic-book-resolves-under-default-limit", err == nil)
	}
}

// Harness_app_keywords: --begin/--end given as today, yesterday, last7 or last30 (globally or on
// the sub-command) select exactly the days from/up to --today minus 0, 1, 7, 30 days.
func Harness_app_keywords() {
	layout := "2006/01/02"
	kws := []string{"today", "yesterday", "last7", "last30"}
	back := []int{0, 1, 7, 30}
	ki := verifChoose("keyword", len(kws))
	verifLabel("keyword", kws[ki])
	asEnd := verifChoose("bound", 2) == 1
	onSub := verifChoose("position", 2) == 1
	today := ""
	var heads []string
	if verifBound("concrete", 0) == 1 {
		// fixed dates: calendar arithmetic on them runs concretely in every explored time zone
		today = "2021/03/02"
		all := []string{"2021/01/31", "2021/02/01", "2021/02/23", "2021/03/01", "2021/03/02", "2021/03/03"}
		heads = []string{all[verifChoose("day", len(all))], all[verifChoose("day", len(all))]}
	} else {
		today = verifDay("today", layout, 60)
		heads = []string{verifDay("day", layout, 60), verifDay("day", layout, 60)}
	}
	tToday, _ := time.Parse(layout, today)
	bound := tToday.AddDate(0, 0, -back[ki])
	keep := make([]bool, len(heads))
	mk := func(keep []bool) string {
		src := ""
		for i, h := range heads {
			if keep == nil || keep[i] {
				src += h + ":\n  f" + string(rune('0'+i)) + ": 1\n"
			}
		}
		return src
	}
	for i, h := range heads {
		t, _ := time.Parse(layout, h)
		if asEnd {
			keep[i] = !t.After(bound)
		} else {
			keep[i] = !t.Before(bound)
		}
	}
	flag := "--begin="
	if asEnd {
		flag = "--end="
	}
	cmd := [][]string{{"print"}, {"bal"}}[verifChoose("command", 2)]
	global := []string{"--today=" + today, "--no-color", "--database=" + verifFile("db", hAppDB)}
	var a1 []string
	if onSub {
		a1 = append(append(append([]string{"--logfile=" + verifFile("full", mk(nil))}, global...), cmd...), flag+kws[ki])
	} else {
		a1 = append(append(append([]string{"--logfile=" + verifFile("full", mk(nil))}, global...), flag+kws[ki]), cmd...)
	}
	out1, err1 := hApp(-1, a1...)
	out2, err2 := hApp(-1, append(append([]string{"--logfile=" + verifFile("kept", mk(keep))}, global...), cmd...)...)
	verifCover("ran")
	verifAssert("keyword-run-ok", err1 == nil && err2 == nil)
	verifAssert("keyword-period=output-on-filtered-log", out1 == out2)
}

func hStripEscapes(s string) string {
	for _, code := range []string{"\x1B[0m", "\x1B[31m", "\x1B[32m"} {
		s = verifReplaceAll(s, code, "")
	}
	return s
}

// Harness_app_color: for the register variants, through the real application with symbolic
// quantities: --no-color given globally or on the sub-command gives the same output; the
// default (coloured) output is that output once the escape codes are removed; a positive
// amount is wrapped in red, a negative one in green, zero in neither.
func Harness_app_color() {
	variants := [][]string{{"reg"}, {"reg", "--use-old-reg-reporter"}, {"reg", "--internal-template-name=left-aligned"}, {"reg", "--totals-only"}}
	vi := verifChoose("variant", len(variants))
	verifLabel("site", strings.Join(variants[vi], " "))
	tok, q := verifNum("qty")
	sign := 0
	if q > 0 {
		sign = 1
	} else if q < 0 {
		sign = -1
	}
	logName := verifFile("log", "2021/01/01:\n  unknown: "+tok+"\n")
	base := []string{"--logfile=" + logName, "--database=" + verifFile("db", hAppDB)}
	plainG, e1 := hApp(-1, append(append(append([]string{}, base...), "--no-color"), variants[vi]...)...)
	plainS, e2 := hApp(-1, append(append(append([]string{}, base...), variants[vi]...), "--no-color")...)
	col, e3 := hApp(-1, append(append([]string{}, base...), variants[vi]...)...)
	verifCover("ran")
	verifAssert("color-runs-ok", e1 == nil && e2 == nil && e3 == nil)
	verifAssert("no-color-global=no-color-on-sub-command", plainG == plainS)
	verifAssert("coloured-output-without-escapes=plain-output", hStripEscapes(col) == plainG)
	red, green := verifContains(col, "\x1B[31m"), verifContains(col, "\x1B[32m")
	switch sign {
	case 1:
		verifAssert("positive-is-red", red && !green)
	case -1:
		verifAssert("negative-is-green", green)
	default:
		verifAssert("zero-is-uncoloured", !red && !green)
	}
}

// Harness_app_sequence: no state is kept between runs in one process: a command B gives the
// same output and status when it is run first and when it is run again after another command A
// (other flags: shortening, colour, date format, template, single element/food, totals).
func Harness_app_sequence() {
	variants := [][]string{
		{"reg"},
		{"reg", "--shorten"},
		{"--no-color", "reg"},
		{"--date-format=2006-01-02", "reg"},
		{"reg", "--internal-template-name=left-aligned"},
		{"reg", "--totals-only"},
		{"reg", "-s", "x"},
		{"reg", "-s", "x", "-g"},
		{"bal"},
		{"bal", "-s", "x"},
		{"summary", "2021/01/01"},
		{"report", "totals"},
		{"csv", "database-resolved"},
		{"--maxdepth=1", "csv", "database-resolved"},
	}
	ai := verifChoose("first-other", len(variants))
	bi := verifChoose("command", len(variants))
	verifAssume(ai != bi)
	verifLabel("site", strings.Join(variants[bi], " "))
	verifLabel("after", strings.Join(variants[ai], " "))
	longLog := "2021/01/01:\n  sweets/pasencia white/sm bonus/100g: 2\n  f1: 1\n  x: -1\n2021/01/02:\n  f0: 1.5\n"
	base := []string{"--logfile=" + verifFile("log", longLog), "--database=" + verifFile("db", hAppDB)}
	run := func(v []string) (string, error) {
		var g, rest []string
		for _, a := range v {
			if strings.HasPrefix(a, "--") && len(rest) == 0 && a != "--shorten" {
				g = append(g, a)
			} else {
				rest = append(rest, a)
			}
		}
		return hApp(-1, append(append(append([]string{}, base...), g...), rest...)...)
	}
	// the command as a fresh process (natively a child process) ...
	split := func(v []string) []string {
		var g, rest []string
		for _, a := range v {
			if strings.HasPrefix(a, "--") && len(rest) == 0 && a != "--shorten" {
				g = append(g, a)
			} else {
				rest = append(rest, a)
			}
		}
		return append(append(append([]string{"hranoprovod-cli"}, base...), g...), rest...)
	}
	fresh, code := verifMainOut(split(variants[bi]))
	// ... and in one process after another command with other flags
	run(variants[ai])
	o2, e2 := run(variants[bi])
	verifCover("ran-twice")
	verifAssert("same-error-status", (code == 0) == (e2 == nil))
	verifAssert("same-output-after-another-command", fresh == o2)
}

// Harness_app_maxdepth: the resolve depth reaches every command that resolves the book, from
// the global flag, the environment and the configuration file in that precedence: with a book
// nested 3 references deep a limit of 1, 2 or 3 is the maximum-depth error, 4 or more resolves.
func Harness_app_maxdepth() {
	cmds := [][]string{{"reg"}, {"bal"}, {"bal", "-s", "x"}, {"summary", "2021/01/01"}, {"csv", "database-resolved"},
		{"report", "element-total", "x"}, {"report", "totals"}, {"report", "unresolved"}, {"reg", "-s", "x"}}
	cmd := cmds[verifChoose("command", len(cmds))]
	verifLabel("site", strings.Join(cmd, " "))
	book := "top:\n  mid: 2\nmid:\n  low: 3\nlow:\n  x: 1\n" // top -> mid -> low -> x: 3 references
	// the files are named through the three sources too; a '$' in a path is part of the path
	args := []string{"--database=" + verifFile("db$HOME", book)}
	switch verifChoose("logfile-source", 3) {
	case 0:
		args = append(args, "--logfile="+verifFile("my$log", "2021/01/01:\n  top: 1\n"))
	case 1:
		verifSetenv("HR_LOGFILE", verifFile("env$log", "2021/01/01:\n  top: 1\n"))
	case 2:
		args = append(args, "--logfile="+verifFile("flag$log", "2021/01/01:\n  top: 1\n"))
		verifSetenv("HR_LOGFILE", verifMissingFile("env-log"))
	}
	vals := []string{"", "1", "2", "3", "4", "10"}
	fi, ei, ci := verifChoose("flag", len(vals)), verifChoose("env", 3), verifChoose("config", 3)
	eff := "10"
	if ci > 0 {
		v := []string{"", "2", "5"}[ci]
		args = append(args, "--config="+verifFile("cfg", "[Resolver]\nMaxDepth = "+v+"\n"))
		eff = v
	} else {
		args = append(args, "--config="+verifFile("cfg", "[Global]\n"))
	}
	if ei > 0 {
		v := []string{"", "3", "6"}[ei]
		verifSetenv("HR_MAXDEPTH", v)
		eff = v
	}
	if vals[fi] != "" {
		args = append(args, "--maxdepth="+vals[fi])
		eff = vals[fi]
	}
	verifLabel("effective-depth", eff)
	_, err := hApp(-1, append(args, cmd...)...)
	verifCover("ran")
	if eff == "1" || eff == "2" || eff == "3" {
		verifAssert("maxdepth:book-nested-as-deep-as-the-limit-is-rejected", err != nil)
	} else {
		verifAssert("maxdepth:book-nested-less-deeply-than-the-limit-resolves", err == nil)
	}
}

// Harness_app_stats_today: `stats` shows the current date given with --today (or Now in the
// configuration file) as that date, in every process time zone.
func Harness_app_stats_today() {
	src := verifChoose("source", 2)
	args := []string{"--logfile=" + verifFile("log", hAppLog), "--database=" + verifFile("db", hAppDB)}
	if src == 0 {
		args = append(args, "--config="+verifFile("cfg", "[Global]\n"), "--today=2021/01/24")
	} else {
		args = append(args, "--config="+verifFile("cfg", "[Global]\n"), "--date-format=2006-01-02", "--today=2021-01-24", "--logfile="+verifFile("log2", "2021-01-01:\n  f0: 1\n"))
	}
	out, err := hApp(-1, append(args, "stats")...)
	verifCover("ran")
	verifAssert("stats-ok", err == nil)
	want := []string{"2021/01/24", "2021-01-24"}[src]
	found := false
	for _, l := range verifLines(out) {
		w := verifWords(l)
		if len(w) >= 2 && w[0] == "Today:" {
			found = w[1] == want
		}
	}
	verifAssert("today:shown-as-given-in-every-time-zone", found)
}

// Harness_app_twice: the same command twice on the same files (run under -maporder=repo: every
// visiting order of the maps the repository's own code ranges over, independently per run):
// byte-identical output and the same status. The log has names that differ only in letter case
// and equal quantities, the book two recipes.
func Harness_app_twice() {
	cmds := [][]string{{"reg"}, {"reg", "--use-old-reg-reporter"}, {"summary", "2021/01/01"}, {"report", "totals"}, {"report", "quantity"},
		{"report", "quantity", "--desc"}, {"bal"}, {"bal", "-s", "x"}, {"report", "unresolved"}, {"report", "element-total", "x"}, {"csv", "database-resolved"}, {"print"}, {"csv", "log"}}
	cmd := cmds[verifChoose("command", len(cmds))]
	verifLabel("site", strings.Join(cmd, " "))
	tok, _ := verifNum("qty")
	logText := "2021/01/01:\n  X: " + tok + "\n  x: " + tok + "\n  f0: 1\n"
	if verifChoose("long-day", 2) == 1 {
		// a day of 36 lines, two of them repeats (sizes at which implementations switch strategy)
		verifLabel("log", "day-of-36-lines")
		logText = "2021/01/01:\n"
		for i := 0; i < 34; i++ {
			logText += "  n" + string(rune('a'+i/10)) + string(rune('0'+i%10)) + ": " + string(rune('1'+i%7)) + "\n"
		}
		logText += "  na3: 2\n  nc1: " + tok + "\n"
	}
	dbText := "f0:\n  x: 2\n  X: 2\nf1:\n  f0: 1\n"
	args := append([]string{"--no-color", "--logfile=" + verifFile("log", logText), "--database=" + verifFile("db", dbText)}, cmd...)
	o1, e1 := hApp(-1, args...)
	o2, e2 := hApp(-1, args...)
	verifCover("ran-twice")
	verifAssert("same-error-status", (e1 == nil) == (e2 == nil))
	verifAssert("same-output", o1 == o2)
}

// Harness_app_odd_names: food names with stray separators, empty path segments, quotes, spaces
// and very long segments through every tree and register command: the command terminates
// (within the step and call-depth budgets) without a panic.
func Harness_app_odd_names() {
	names := []string{"coffee/", "tea//cup", "/x", "a/ /b", "//", "x/y/", "a/b/c/d/e/f/g/h/i/j/k/l", "\"q\"/x", "n/" + strings.Repeat("z", 70)}
	name := names[verifChoose("name", len(names))]
	verifLabel("name", name)
	cmds := [][]string{{"bal"}, {"bal", "-c"}, {"bal", "--collapse-last"}, {"bal", "-s", "x"}, {"bal", "-s", "x", "-c"}, {"reg"}, {"reg", "--shorten"},
		{"reg", "-f", "x"}, {"print"}, {"csv", "log"}, {"report", "quantity"}, {"report", "totals"}, {"report", "unresolved"}, {"csv", "database-resolved"}}
	cmd := cmds[verifChoose("command", len(cmds))]
	verifLabel("site", strings.Join(cmd, " "))
	logText := "2021/01/01:\n  " + name + ": 1\n  other: 2\n2021/01/02:\n  " + name + ": 3\n"
	dbText := name + ":\n  x: 2\nother:\n  " + name + ": 1\n"
	hApp(-1, append([]string{"--logfile=" + verifFile("log", logText), "--database=" + verifFile("db", dbText)}, cmd...)...)
	verifCover("ran")
}

// Harness_app_flag_combinations: every subset of register's presentation and selection flags
// (given on the sub-command): the command terminates without a panic, and when it succeeds the
// run with the same flags is repeatable.
func Harness_app_flag_combinations() {
	flags := [][]string{{"--no-totals"}, {"--totals-only"}, {"--shorten"}, {"--no-color"}, {"--use-old-reg-reporter"}, {"--csv"}, {"-s", "x"}, {"-g"}, {"-f", "f"}}
	args := []string{"--logfile=" + verifFile("log", hAppLog), "--database=" + verifFile("db", hAppDB), "reg"}
	desc := ""
	for _, f := range flags {
		if verifChoose("flag "+f[0], 2) == 1 {
			args = append(args, f...)
			desc += " " + strings.Join(f, " ")
		}
	}
	verifLabel("flags", desc)
	hApp(-1, args...)
	verifCover("ran")
	bargs := []string{"--logfile=" + verifFile("log", hAppLog), "--database=" + verifFile("db", hAppDB), "bal"}
	for _, f := range [][]string{{"-c"}, {"--collapse-last"}, {"-s", "x"}} {
		if verifChoose("bal-flag "+f[0], 2) == 1 {
			bargs = append(bargs, f...)
		}
	}
	hApp(-1, bargs...)
}

// Harness_app_partial_report: a per-day report of a log whose LAST day has a malformed line
// still shows the earlier days exactly as the report of those days alone, and fails.
func Harness_app_partial_report() {
	cmds := [][]string{{"reg"}, {"reg", "--use-old-reg-reporter"}, {"reg", "-f", "f"}, {"reg", "-s", "x"}, {"print"}, {"csv", "log"}}
	cmd := cmds[verifChoose("command", len(cmds))]
	verifLabel("site", strings.Join(cmd, " "))
	good := "2021/01/01:\n  f1: 2\n  x: 1\n2021/01/02:\n  f0: 1.5\n"
	bad := []string{"2021/01/03:\n  f0: 1\n  x: 1x\n", "2021/01/03:\n  broken\n"}[verifChoose("malformed", 2)]
	db := verifFile("db", hAppDB)
	o1, e1 := hApp(-1, append([]string{"--no-color", "--logfile=" + verifFile("good", good), "--database=" + db}, cmd...)...)
	o2, e2 := hApp(-1, append([]string{"--no-color", "--logfile=" + verifFile("bad", good+bad), "--database=" + db}, cmd...)...)
	verifCover("ran")
	verifAssert("malformed-input-is-error", e1 == nil && e2 != nil)
	l1, l2 := verifLines(o1), verifLines(o2)
	same := len(l2) >= len(l1)
	for i := 0; same && i < len(l1); i++ {
		same = l1[i] == l2[i]
	}
	verifAssert("earlier-days-shown-as-before", same)
}

// Harness_app_odd_names_balance: a name with an empty path segment is a different food from its
// tidy spelling: `report quantity` and the balance leaves show both, with their own amounts.
func Harness_app_odd_names_balance() {
	pairs := [][]string{{"fruit//apple", "fruit/apple"}, {"tea//cup/", "tea/cup"}, {"/x", "x"}}
	p := pairs[verifChoose("pair", len(pairs))]
	verifLabel("name", p[0])
	logText := "2021/01/01:\n  " + p[0] + ": 2\n  " + p[1] + ": 1.5\n"
	base := []string{"--logfile=" + verifFile("log", logText), "--database=" + verifFile("db", hAppDB)}
	q, e1 := hApp(-1, append(append([]string{}, base...), "report", "quantity")...)
	b, e2 := hApp(-1, append(append([]string{}, base...), "bal")...)
	verifCover("ran")
	verifAssert("odd-names-run", e1 == nil && e2 == nil)
	has := func(out string, v float64) bool {
		for _, n := range verifNums(out) {
			if n == v {
				return true
			}
		}
		return false
	}
	verifAssert("quantity:both-foods-listed", has(q, 2) && has(q, 1.5))
	verifAssert("balance-leaf:both-foods-listed-with-their-own-amounts", has(b, 2) && has(b, 1.5))
}

// Harness_app_stats_twice: `stats` twice on the same files - a long log and a recipe book with
// a malformed line: the same status and output both times, whatever the schedule of any
// goroutine the command may start (two schedules are explored per run: at once, when waited for).
func Harness_app_stats_twice() {
	logText := ""
	for d := 0; d < 120; d++ {
		logText += "2021/0" + string(rune('1'+d/28)) + "/" + string(rune('0'+(d%28+1)/10)) + string(rune('0'+(d%28+1)%10)) + ":\n  f0: 1\n"
	}
	dbText := "f0:\n  x: 2\nf1:\n  x: two\nf2:\n  y: 1\n"
	if verifChoose("book", 2) == 1 {
		dbText = hAppDB
	}
	args := []string{"--logfile=" + verifFile("log", logText), "--database=" + verifFile("db", dbText), "--today=2021/06/01", "stats"}
	o1, e1 := hApp(-1, args...)
	o2, e2 := hApp(-1, args...)
	verifCover("ran-twice")
	verifAssert("same-error-status", (e1 == nil) == (e2 == nil))
	verifAssert("same-output", o1 == o2)
}

// Harness_app_no_database: --no-database behaves as an empty recipe book - whatever names a
// book otherwise (nothing, --database, HR_DATABASE, the configuration file, all of a book that
// exists), for every command that reads the book: the output is that of the same command with
// an empty file as the book.
func Harness_app_no_database() {
	cmds := [][]string{{"reg", "--use-old-reg-reporter"}, {"reg"}, {"bal"}, {"bal", "-s", "x"}, {"summary", "2021/01/01"}, {"report", "totals"},
		{"report", "unresolved"}, {"csv", "database"}, {"csv", "database-resolved"}, {"report", "element-total", "x"}, {"stats"}}
	cmd := cmds[verifChoose("command", len(cmds))]
	verifLabel("site", strings.Join(cmd, " "))
	logArg := "--logfile=" + verifFile("log", hAppLog)
	book := verifFile("book", hAppDB)
	var named []string
	switch verifChoose("book-named-by", 4) {
	case 1:
		named = []string{"--database=" + book}
	case 2:
		verifSetenv("HR_DATABASE", book)
	case 3:
		named = []string{"--config=" + verifFile("cfg", "[Global]\nDbFileName = "+book+"\n")}
	}
	if len(named) == 0 || !strings.HasPrefix(named[0], "--config") {
		named = append(named, "--config="+verifFile("cfg0", "[Global]\n"))
	}
	o1, e1 := hApp(-1, append(append([]string{"--no-color", "--no-database", logArg}, named...), cmd...)...)
	o2, e2 := hApp(-1, append([]string{"--no-color", "--config=" + verifFile("cfg1", "[Global]\n"), "--database=" + verifFile("empty-book", ""), logArg}, cmd...)...)
	verifCover("ran")
	verifAssert("no-database-command-runs", e1 == nil && e2 == nil)
	if cmd[0] != "stats" { // stats prints the book's file name
		verifAssert("no-database-means-empty-book", o1 == o2)
	}
}
