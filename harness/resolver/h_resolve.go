package resolver

import (
	shared "github.com/aquilax/hranoprovod-cli/v3"
)

// ---- reference model of a recipe book (harness-owned copy; resolution is in place)

type hIng struct {
	name string
	q    float64
}

type hBook struct {
	names []string
	rec   map[string][]hIng
}

func (b *hBook) isRecipe(n string) bool { _, ok := b.rec[n]; return ok }

// longestChain returns the number of ingredient references on the longest chain starting at
// any recipe (a reference to a basic element counts as one reference and ends the chain), or
// limit if some chain is at least limit long (cycles included).
// Bellman-Ford style relaxation: after r rounds depth[n] is the longest chain of at most r
// references from n.
func (b *hBook) longestChain(limit int) int {
	depth := map[string]int{}
	for _, n := range b.names {
		depth[n] = 0
	}
	best := 0
	for round := 0; round < limit; round++ {
		next := map[string]int{}
		changed := false
		for _, n := range b.names {
			d := 0
			for _, ing := range b.rec[n] {
				c := 1
				if b.isRecipe(ing.name) {
					c = 1 + depth[ing.name]
				}
				if c > d {
					d = c
				}
			}
			next[n] = d
			if d != depth[n] {
				changed = true
			}
			if d > best {
				best = d
			}
		}
		depth = next
		if !changed {
			return best
		}
	}
	if best > limit {
		best = limit
	}
	return best
}

// pathSum is, literally, the sum over all ingredient paths from n down to leaf of the product
// of the quantities along the path (paths enumerated one by one, product carried down).
func (b *hBook) pathSum(n, leaf string, fuel int) (float64, bool) {
	total, any := 0.0, false
	var walk func(cur string, prod float64, fuel int)
	walk = func(cur string, prod float64, fuel int) {
		if !b.isRecipe(cur) {
			if cur == leaf {
				total += prod
				any = true
			}
			return
		}
		if fuel == 0 {
			return
		}
		for _, ing := range b.rec[cur] {
			walk(ing.name, prod*ing.q, fuel-1)
		}
	}
	walk(n, 1, fuel)
	return total, any
}

func hBuildBook(K, M, L int) (shared.DBNodeMap, *hBook) {
	recipes := []string{"r0", "r1", "r2", "r3", "r4"}[:K]
	leaves := []string{"x", "y", "z"}[:L]
	if verifBound("oddleaves", 0) == 1 {
		// element names that share a prefix followed by '/' in one and by a lower byte in the others
		leaves = []string{"f/s", "f t", "f.r"}[:L]
	}
	// interleave so that names sort in mixed order: leaves x,y,z sort after r*; add a leaf "a" style by renaming
	db := shared.NewDBNodeMap()
	ref := &hBook{names: recipes, rec: map[string][]hIng{}}
	for i := 0; i < K; i++ {
		n := verifChoose("n", M+1)
		els := shared.NewElements()
		ings := []hIng{}
		for j := 0; j < n; j++ {
			c := verifChoose("ing", K+L)
			q := verifFloat("q")
			var name string
			if c < K {
				name = recipes[c]
			} else {
				name = leaves[c-K]
			}
			els.Add(name, q)
			ings = append(ings, hIng{name, q})
		}
		db.Push(&shared.DBNode{Header: recipes[i], Elements: els})
		ref.rec[recipes[i]] = ings
	}
	return db, ref
}

func hFind(els shared.Elements, name string) (float64, bool) {
	for _, e := range els {
		if e.Name == name {
			return e.Value, true
		}
	}
	return 0, false
}

func hResolveAPI(api int, N int, db shared.DBNodeMap) (shared.DBNodeMap, error) {
	if api == 0 {
		return Resolve(Config{MaxDepth: N}, db)
	}
	if api == 2 {
		// the Resolver is created on the book before its last recipes are pushed
		var held []*shared.DBNode
		var names []string
		for name := range db {
			names = append(names, name)
		}
		for i := 1; i < len(names); i++ {
			for j := i; j > 0 && names[j] < names[j-1]; j-- {
				names[j], names[j-1] = names[j-1], names[j]
			}
		}
		if len(names) > 1 {
			last := names[len(names)-1]
			held = append(held, db[last])
			delete(db, last)
		}
		r := NewResolver(db, Config{MaxDepth: N})
		for _, n := range held {
			db.Push(n)
		}
		err := r.Resolve()
		return db, err
	}
	r := NewResolver(db, Config{MaxDepth: N})
	err := r.Resolve()
	return db, err
}

// Harness_C01_resolve: nested recipes = sum of products, sorted, unique, no recipe left,
// for every acyclic book nested less deeply than the limit, every map order, both APIs.
func Harness_C01_resolve() {
	K, M, L := verifBound("K", 3), verifBound("M", 2), verifBound("L", 1)
	N := verifBound("N", 10)
	api := verifChoose("api", 2+verifBound("lateapi", 0))
	db, ref := hBuildBook(K, M, L)
	chain := ref.longestChain(N + 1)
	verifAssume(chain < N)
	verifCover("acyclic-book")
	if chain >= 3 {
		verifCover("nesting>=2")
	}
	// "nested less deeply than the depth limit": also under the tightest limit that admits the book
	if verifBound("tight", 0) == 1 && verifChoose("limit", 2) == 1 {
		N = chain + 1
		verifLabel("limit", "tightest")
	}
	if verifBound("prelude", 0) == 1 && verifChoose("prelude", 2) == 1 {
		// an earlier, failing resolution of another book with the same recipe names in the same
		// process must not influence this one (state kept between calls)
		pre := shared.NewDBNodeMap()
		// one recipe refers to itself, the others are plain: depending on the visiting order some
		// are finished before the failure
		bad := verifChoose("prelude-cyclic-recipe", len(ref.names))
		for i, r := range ref.names {
			els := shared.NewElements()
			if i == bad {
				els.Add(r, 1)
			}
			els.Add("x", 1)
			pre.Push(&shared.DBNode{Header: r, Elements: els})
		}
		_, perr := hResolveAPI(api, N, pre)
		verifAssert("cyclic-prelude-rejected", perr != nil)
		verifLabel("prelude", "failing-resolution-first")
	}
	out, err := hResolveAPI(api, N, db)
	verifAssert("no-error", err == nil)
	if err != nil {
		return
	}
	leaves := []string{"x", "y", "z"}[:L]
	for _, r := range ref.names {
		node, ok := out[r]
		verifAssert("recipe-kept", ok && node != nil)
		if !ok || node == nil {
			continue
		}
		got := node.Elements
		for i := 1; i < len(got); i++ {
			verifAssert("sorted-unique", got[i-1].Name < got[i].Name)
		}
		for _, e := range got {
			verifAssert("only-leaves", !ref.isRecipe(e.Name))
		}
		if verifBound("oddleaves", 0) == 1 {
			leaves = []string{"f/s", "f t", "f.r"}[:L]
		}
		for _, l := range leaves {
			want, reach := ref.pathSum(r, l, N+1)
			have, present := hFind(got, l)
			verifAssert("present-iff-reachable", present == reach)
			if present && reach {
				verifAssert("amount=sum-of-products", verifFloatEq(have, want))
			}
		}
		verifAssert("no-extra", len(got) <= L)
	}
}

// Harness_C01_idempotent: resolving an already resolved book changes nothing (FP mode:
// structural identity), and both APIs agree.
func Harness_C01_idempotent() {
	K, M, L := verifBound("K", 3), verifBound("M", 2), verifBound("L", 1)
	N := verifBound("N", 10)
	api := verifChoose("api", 2)
	db, ref := hBuildBook(K, M, L)
	verifAssume(ref.longestChain(N+1) < N)
	out, err := hResolveAPI(api, N, db)
	if err != nil {
		return
	}
	// snapshot
	snap := map[string]shared.Elements{}
	for _, r := range ref.names {
		cp := shared.NewElements()
		for _, e := range out[r].Elements {
			cp.Add(e.Name, e.Value)
		}
		snap[r] = cp
	}
	out2, err2 := hResolveAPI(1-api, N, out)
	verifAssert("idem-no-error", err2 == nil)
	if err2 != nil {
		return
	}
	for _, r := range ref.names {
		a, b := snap[r], out2[r].Elements
		verifAssert("idem-len", len(a) == len(b))
		if len(a) != len(b) {
			continue
		}
		for i := range a {
			verifAssert("idem-name", a[i].Name == b[i].Name)
			verifAssert("idem-value", verifSameFloat(a[i].Value, b[i].Value))
		}
	}
}

// Harness_C11_depth: resolution terminates and fails exactly when some chain of references
// is N or more long, under every visiting order, for every book (cycles included).
func Harness_C11_depth() {
	K, M, L := verifBound("K", 3), verifBound("M", 1), verifBound("L", 1)
	Nmax := verifBound("Nmax", 4)
	N := 1 + verifChoose("N", Nmax)
	api := verifChoose("api", 2)
	db, ref := hBuildBook(K, M, L)
	chain := ref.longestChain(Nmax + 2)
	if chain >= Nmax+2 {
		verifCover("deep-or-cyclic")
	}
	if chain == N {
		verifCover("chain==N")
		verifLabel("chain-vs-N", "chain==N")
	} else if chain < N {
		if chain == N-1 {
			verifCover("chain==N-1")
		}
		verifLabel("chain-vs-N", "chain<N")
	} else {
		verifLabel("chain-vs-N", "chain>N")
	}
	verifLabel("K", hItoa(K))
	if verifBound("prelude", 0) == 1 && verifChoose("prelude", 2) == 1 {
		// an earlier failing resolution (one self-referencing recipe among plain ones with the same
		// names) in the same process must not change the outcome
		pre := shared.NewDBNodeMap()
		bad := verifChoose("prelude-cyclic-recipe", len(ref.names))
		for i, r := range ref.names {
			els := shared.NewElements()
			if i == bad {
				els.Add(r, 1)
			}
			els.Add("x", 1)
			pre.Push(&shared.DBNode{Header: r, Elements: els})
		}
		hResolveAPI(api, N, pre)
		verifLabel("prelude", "failing-resolution-first")
	}
	_, err := hResolveAPI(api, N, db)
	if chain >= N {
		verifAssert("deep-chain-rejected", err != nil)
	} else {
		verifAssert("shallow-accepted", err == nil)
	}
}

func hItoa(i int) string {
	return string(rune('0' + i))
}

// Harness_C05_resolve_twice: the same book resolved twice, the executor choosing the visiting
// orders of the two runs independently: same success/failure, identical results.
func Harness_C05_resolve_twice() {
	K, M, L := verifBound("K", 3), verifBound("M", 1), verifBound("L", 1)
	N := 1 + verifChoose("N", verifBound("Nmax", 4))
	// two structurally identical books from one set of choices and coefficients
	recipes := []string{"r0", "r1", "r2", "r3", "r4"}[:K]
	leaves := []string{"x", "y", "z"}[:L]
	db1, db2 := shared.NewDBNodeMap(), shared.NewDBNodeMap()
	ref := &hBook{names: recipes, rec: map[string][]hIng{}}
	for i := 0; i < K; i++ {
		n := verifChoose("n", M+1)
		e1, e2 := shared.NewElements(), shared.NewElements()
		var ings []hIng
		for j := 0; j < n; j++ {
			c := verifChoose("ing", K+L)
			q := verifFloat("q")
			name := ""
			if c < K {
				name = recipes[c]
			} else {
				name = leaves[c-K]
			}
			e1.Add(name, q)
			e2.Add(name, q)
			ings = append(ings, hIng{name, q})
		}
		db1.Push(&shared.DBNode{Header: recipes[i], Elements: e1})
		db2.Push(&shared.DBNode{Header: recipes[i], Elements: e2})
		ref.rec[recipes[i]] = ings
	}
	chain := ref.longestChain(N + 2)
	if chain == N {
		verifLabel("chain-vs-N", "chain==N")
	} else if chain < N {
		verifLabel("chain-vs-N", "chain<N")
	} else {
		verifLabel("chain-vs-N", "chain>N")
	}
	verifLabel("unit", "resolve")
	o1, err1 := Resolve(Config{MaxDepth: N}, db1)
	o2, err2 := Resolve(Config{MaxDepth: N}, db2)
	verifCover("ran-twice")
	verifAssert("same-error-status", (err1 == nil) == (err2 == nil))
	if err1 != nil || err2 != nil {
		return
	}
	for _, r := range recipes {
		a, b := o1[r].Elements, o2[r].Elements
		verifAssert("same-row-count", len(a) == len(b))
		if len(a) == len(b) {
			for i := range a {
				verifAssert("same-row-order", a[i].Name == b[i].Name)
				verifAssert("same-numbers", verifSameFloat(a[i].Value, b[i].Value))
			}
		}
	}
}
