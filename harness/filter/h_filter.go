package filter

import (
	"time"
)

// hInstant: an arbitrary instant as (sec, nsec) solver variables, built with the real
// time.Unix(...).UTC(); the harness compares instants on the integers, not through time.Time.
type hInstant struct {
	sec, nsec int64
	t         time.Time
}

func hMkInstant(tag string) hInstant {
	sec := verifInt(tag+"-sec", -(1 << 40), 1<<40)
	nsec := verifInt(tag+"-nsec", 0, 999999999)
	return hInstant{sec, nsec, time.Unix(sec, nsec).UTC()}
}

func hLE(a, b hInstant) bool {
	if a.sec != b.sec {
		return a.sec < b.sec
	}
	return a.nsec <= b.nsec
}

// Harness_interval_exact: filter(t) <=> (begin absent or begin <= t) and (end absent or t <= end),
// for all instants (bit-vector arithmetic of the real time.Time methods); no bounds => no filter.
func Harness_interval_exact() {
	t := hMkInstant("t")
	hasB := verifChoose("begin", 2) == 1
	hasE := verifChoose("end", 2) == 1
	var cfg Config
	var b, e hInstant
	if hasB {
		b = hMkInstant("b")
		cfg.BeginningTime = &b.t
	}
	if hasE {
		e = hMkInstant("e")
		cfg.EndTime = &e.t
	}
	f := GetIntervalNodeFilter(cfg)
	verifCover("built")
	if !hasB && !hasE {
		verifAssert("no-bounds-no-filter", f == nil)
		return
	}
	verifAssert("filter-present", f != nil)
	if f == nil {
		return
	}
	got, err := (*f)(t.t, nil)
	verifAssert("filter-no-error", err == nil)
	okB := !hasB || hLE(b, t)
	okE := !hasE || hLE(t, e)
	if okB && okE {
		verifLabel("expected", "selected")
		verifAssert("in-range-selected", got)
	} else {
		verifLabel("expected", "excluded")
		verifAssert("out-of-range-excluded", !got)
	}
}
